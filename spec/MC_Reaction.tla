----------------------------- MODULE MC_Reaction -----------------------------
(* C16: rule texts x molecules.  Every rule text is parsed and read by the     *)
(* TLA+ reader (acceptance = electron balance); every accepted unimolecular    *)
(* rule is run on every molecule of its pairs.  Invariants: ElectronsConserved *)
(* (balance means what it says) and Untouched (nothing else changes).          *)
EXTENDS Reaction, Json, IOUtils, TLC

In == JsonDeserialize(IOEnv.VIN)
Shard == atoi(IOEnv.SHARD)
NShard == atoi(IOEnv.NSHARD)
Pairs == In.pairs
MyIdx == TLCEval({j \in 1..Len(Pairs) : j % NShard = Shard})
MyRules == TLCEval({Pairs[j][1] : j \in MyIdx})
RuleTab == TLCEval([f \in MyRules |->
   LET p == ParseRing(In.rules[f]) IN
   IF ~p.ok THEN [ok |-> FALSE, why |-> "RINGSyntaxError"]
   ELSE IF p.ast.c[1].n # "ReactionRule" THEN [ok |-> FALSE, why |-> "not a rule"]
   ELSE LET r == ReadRule(p.ast.c[1]) IN
        IF r.err # "" THEN [ok |-> FALSE, why |-> r.err] ELSE [ok |-> TRUE, r |-> r]])
Result(j) == LET f == RuleTab[Pairs[j][1]] IN
  IF ~f.ok THEN [ok |-> FALSE, why |-> f.why]
  ELSE IF Len(f.r.reactants) # 1 THEN [ok |-> FALSE, why |-> "not unimolecular"]
  ELSE [ok |-> TRUE, rs |-> RunRule(f.r, In.mols[Pairs[j][2]])]
ResTab == TLCEval([j \in MyIdx |-> Result(j)])

VARIABLES vcase, vres
Init == vcase = 0 /\ vres = [ok |-> FALSE, why |-> "none"]
Next == vcase = 0 /\ \E j \in MyIdx : vcase' = j /\ vres' = ResTab[j]
BalanceMeansConservation == (vcase # 0 /\ vres.ok) => \A x \in vres.rs : ElectronsConserved(In.mols[Pairs[vcase][2]], x)
NothingElseChanges == (vcase # 0 /\ vres.ok) => \A x \in vres.rs : Untouched(In.mols[Pairs[vcase][2]], x)
Out(x) == IF IsUnspec(x.g) THEN [m |-> x.m, unspecified |-> TRUE]
          ELSE [m |-> x.m, atoms |-> x.g.atoms,
                bonds |-> {<<bd.a, bd.b, bd.kind>> : bd \in {x.g.bonds[k] : k \in 1..Len(x.g.bonds)}},
                comps |-> Components(x.g)]
Export == JsonSerialize(IOEnv.VOUT,
            [res |-> [j \in MyIdx |-> IF ResTab[j].ok THEN [ok |-> TRUE, rs |-> {Out(x) : x \in ResTab[j].rs}] ELSE ResTab[j]]])
Post == TLCGet("stats").diameter > 0 /\ Export
=============================================================================
