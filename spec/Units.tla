-------------------------------- MODULE Units --------------------------------
(* C10: the little language of unit expressions.  Tokeniser, grammar and     *)
(* evaluation transcribed from the documented meaning:                       *)
(*   expr   ::= factor { ('*' | '/' | <juxtaposition>) factor }   left-assoc *)
(*   factor ::= base [ '^' number ]                                          *)
(*   base   ::= '(' expr ')' | number | name                                 *)
(*   number ::= NUM | '(' NUM ')'                                            *)
(* A name is a unit name, or an SI prefix followed by a unit name (the exact *)
(* name wins).  The value of an expression is an exact magnitude (Mag) and   *)
(* seven base exponents; anything else is the units parse error.             *)
EXTENDS UnitDB, Text

\* ------------------------------------------------------------------ tokens
DOT == 46
MINUS == 45
IsNumCh(c) == IsDigitCode(c) \/ c = DOT
\* last index of the maximal run from i of numeric / alphabetic code points
RECURSIVE RunEndNum(_, _), RunEndAlpha(_, _)
RunEndNum(t, i) == IF i < Len(t) /\ IsNumCh(t[i + 1]) THEN RunEndNum(t, i + 1) ELSE i
RunEndAlpha(t, i) == IF i < Len(t) /\ IsAlphaCode(t[i + 1]) THEN RunEndAlpha(t, i + 1) ELSE i

RECURSIVE TokFrom(_, _)
TokFrom(t, i) ==
  IF i > Len(t) THEN <<>>
  ELSE LET c == t[i] IN
    IF c = MINUS /\ i < Len(t) /\ IsNumCh(t[i + 1]) THEN
         LET e == RunEndNum(t, i + 1) IN <<SubSeq(t, i, e)>> \o TokFrom(t, e + 1)
    ELSE IF IsNumCh(c) THEN
         LET e == RunEndNum(t, i) IN <<SubSeq(t, i, e)>> \o TokFrom(t, e + 1)
    ELSE IF IsAlphaCode(c) THEN
         LET e == RunEndAlpha(t, i) IN <<SubSeq(t, i, e)>> \o TokFrom(t, e + 1)
    ELSE IF IsSpaceCode(c) THEN TokFrom(t, i + 1)
    ELSE <<<<c>>>> \o TokFrom(t, i + 1)
Tokenise(t) == TokFrom(t, 1)

\* a numeric token: optional '-', digits with at most one '.', at least one digit
Digits(tok) == {k \in 1..Len(tok) : IsDigitCode(tok[k])}
Dots(tok) == {k \in 1..Len(tok) : tok[k] = DOT}
IsNumTok(tok) ==
  /\ Len(tok) > 0
  /\ \A k \in 1..Len(tok) : IsNumCh(tok[k]) \/ (k = 1 /\ tok[k] = MINUS)
  /\ Cardinality(Dots(tok)) <= 1 /\ Digits(tok) # {}
\* its value as a Mag: digits without the dot, scaled by 10^-(digits after the dot)
NumMag(tok) ==
  LET neg == tok[1] = MINUS
      body == IF neg THEN Tail(tok) ELSE tok
      ds == SelectSeq(body, IsDigitCode)
      dot == {k \in 1..Len(body) : body[k] = DOT}
      frac == IF dot = {} THEN 0 ELSE Len(body) - (CHOOSE k \in dot : TRUE)
      n == DecValue(ds)
  IN MagMul(MagDec(IF neg THEN -n ELSE n, 0), MagPow10(-frac))
\* ... and as a rational (used for exponents)
NumRat(tok) ==
  LET neg == tok[1] = MINUS
      body == IF neg THEN Tail(tok) ELSE tok
      ds == SelectSeq(body, IsDigitCode)
      dot == {k \in 1..Len(body) : body[k] = DOT}
      frac == IF dot = {} THEN 0 ELSE Len(body) - (CHOOSE k \in dot : TRUE)
      n == DecValue(ds)
  IN RDiv(R(IF neg THEN -n ELSE n), RPowI(R(10), frac))
AllAlpha(tok) == Len(tok) > 0 /\ \A k \in 1..Len(tok) : IsAlphaCode(tok[k])

\* ------------------------------------------------------------------ parser
Fail == [ok |-> FALSE]
OkAt(ast, i) == [ok |-> TRUE, ast |-> ast, i |-> i]
TkIs(ts, i, c) == i <= Len(ts) /\ ts[i] = <<c>>
CARET == 94
STAR == 42
SLASH == 47

RECURSIVE PExpr(_, _), PLoop(_, _, _), PFactor(_, _), PBase(_, _), PNumber(_, _)
PNumber(ts, i) ==
  IF TkIs(ts, i, LPAREN) THEN
       IF i + 2 <= Len(ts) /\ IsNumTok(ts[i + 1]) /\ ts[i + 2] = <<RPAREN>>
       THEN OkAt([k |-> "num", tok |-> ts[i + 1]], i + 3) ELSE Fail
  ELSE IF i <= Len(ts) /\ IsNumTok(ts[i]) THEN OkAt([k |-> "num", tok |-> ts[i]], i + 1)
  ELSE Fail
PBase(ts, i) ==
  IF i > Len(ts) THEN Fail
  ELSE IF ts[i] = <<LPAREN>> THEN
       LET e == PExpr(ts, i + 1) IN
       IF e.ok /\ TkIs(ts, e.i, RPAREN) THEN OkAt(e.ast, e.i + 1) ELSE Fail
  ELSE IF IsNumTok(ts[i]) THEN OkAt([k |-> "num", tok |-> ts[i]], i + 1)
  ELSE IF AllAlpha(ts[i]) THEN OkAt([k |-> "name", tok |-> ts[i]], i + 1)
  ELSE Fail
PFactor(ts, i) ==
  LET b == PBase(ts, i) IN
  IF ~b.ok THEN Fail
  ELSE IF TkIs(ts, b.i, CARET) THEN
       LET n == PNumber(ts, b.i + 1) IN
       IF n.ok THEN OkAt([k |-> "pow", b |-> b.ast, p |-> n.ast.tok], n.i) ELSE Fail
  ELSE b
PLoop(ts, i, left) ==
  IF i > Len(ts) THEN OkAt(left, i)
  ELSE IF ts[i] \in {<<STAR>>, <<SLASH>>} THEN
       LET f == PFactor(ts, i + 1) IN
       IF f.ok THEN PLoop(ts, f.i, [k |-> IF ts[i] = <<STAR>> THEN "mul" ELSE "div",
                                    l |-> left, r |-> f.ast])
       ELSE Fail
  ELSE LET f == PFactor(ts, i) IN          \* juxtaposition = product, if a factor follows
       IF f.ok THEN PLoop(ts, f.i, [k |-> "mul", l |-> left, r |-> f.ast])
       ELSE OkAt(left, i)
PExpr(ts, i) == LET f == PFactor(ts, i) IN IF f.ok THEN PLoop(ts, f.i, f.ast) ELSE Fail

Parse(ts) == LET e == PExpr(ts, 1) IN IF e.ok /\ e.i = Len(ts) + 1 THEN e ELSE Fail

\* ------------------------------------------------------------------ lookup
ZeroDims == <<RZero, RZero, RZero, RZero, RZero, RZero, RZero>>
NoUnit == [ok |-> FALSE]
Lookup(name) ==
  IF name \in UnitNames THEN [ok |-> TRUE, mag |-> UnitOf(name).mag, dim |-> UnitOf(name).dim]
  ELSE IF Len(name) > 1 /\ SubSeq(name, 1, 1) \in PrefixNames /\ Tail(name) \in UnitNames THEN
       LET u == UnitOf(Tail(name)) IN
       [ok |-> TRUE, mag |-> MagMul(MagPow10(PrefixExp(SubSeq(name, 1, 1))), u.mag), dim |-> u.dim]
  ELSE IF Len(name) > 2 /\ SubSeq(name, 1, 2) \in PrefixNames /\ SubSeq(name, 3, Len(name)) \in UnitNames THEN
       LET u == UnitOf(SubSeq(name, 3, Len(name))) IN
       [ok |-> TRUE, mag |-> MagMul(MagPow10(PrefixExp(SubSeq(name, 1, 2))), u.mag), dim |-> u.dim]
  ELSE NoUnit

\* ------------------------------------------------------------------ evaluation
DAdd(a, b) == [k \in 1..7 |-> RAdd(a[k], b[k])]
DSub(a, b) == [k \in 1..7 |-> RSub(a[k], b[k])]
DScale(a, p) == [k \in 1..7 |-> RMul(a[k], p)]
Val(m, d) == [ok |-> TRUE, mag |-> m, dim |-> d]

RECURSIVE Eval(_)
Eval(a) ==
  CASE a.k = "num" -> Val(NumMag(a.tok), ZeroDims)
    [] a.k = "name" -> Lookup(a.tok)
    [] a.k = "pow" -> LET b == Eval(a.b) p == NumRat(a.p) IN
                      IF b.ok THEN Val(MagPow(b.mag, p), DScale(b.dim, p)) ELSE b
    [] a.k \in {"mul", "div"} ->
         LET l == Eval(a.l) r == Eval(a.r) IN
         IF ~l.ok THEN l ELSE IF ~r.ok THEN r
         ELSE IF a.k = "mul" THEN Val(MagMul(l.mag, r.mag), DAdd(l.dim, r.dim))
         ELSE Val(MagDiv(l.mag, r.mag), DSub(l.dim, r.dim))

ParseErr == [ok |-> FALSE, cls |-> "UnitsParseError"]
\* value of a text: a quantity (mag, dim), or the units parse error
EvalText(t) ==
  LET p == Parse(Tokenise(t)) IN
  IF ~p.ok THEN ParseErr
  ELSE LET v == Eval(p.ast) IN IF v.ok THEN v ELSE ParseErr

\* conversion: the ratio of magnitudes when the dimensions agree
Convert(q, u) == IF q.dim = u.dim THEN [ok |-> TRUE, mag |-> MagDiv(q.mag, u.mag)]
                 ELSE [ok |-> FALSE, cls |-> "UnitsError"]
=============================================================================
