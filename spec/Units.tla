-------------------------------- MODULE Units --------------------------------
(* C10: the little language of unit expressions.  Tokeniser, grammar and     *)
(* evaluation transcribed from the documented meaning:                       *)
(*   expr   ::= factor { ('*' | '/' | <juxtaposition>) factor }   left-assoc *)
(*   factor ::= base [ '^' number ]                                          *)
(*   base   ::= '(' expr ')' | number | name                                 *)
(*   number ::= NUM | '(' NUM ')'                                            *)
(* A name is a unit name, or an SI prefix followed by a unit name (the exact *)
(* name wins).  The value of an expression is an exact magnitude (Mag) and   *)
(* seven base exponents; anything else is the units parse error.             *)
EXTENDS UnitDB, Text

\* ------------------------------------------------------------------ tokens
DOT == 46
MINUS == 45
IsNumCh(c) == IsDigitCode(c) \/ c = DOT
\* last index of the maximal run from i of numeric / alphabetic code points
RECURSIVE RunEndNum(_, _), RunEndAlpha(_, _), RunEndDigits(_, _)
RunEndDigits(t, i) == IF i < Len(t) /\ IsDigitCode(t[i + 1]) THEN RunEndDigits(t, i + 1) ELSE i
RunEndNum(t, i) == IF i < Len(t) /\ IsNumCh(t[i + 1]) THEN RunEndNum(t, i + 1) ELSE i
RunEndAlpha(t, i) == IF i < Len(t) /\ IsAlphaCode(t[i + 1]) THEN RunEndAlpha(t, i + 1) ELSE i

\* an exponent part  [eE][-+]?digits  directly after a numeric run ending at j
IsE(c) == c = 69 \/ c = 101
ExpEnd(t, j) ==
  IF j + 1 <= Len(t) /\ IsE(t[j + 1]) THEN
       LET k == IF j + 2 <= Len(t) /\ t[j + 2] \in {43, 45} THEN j + 2 ELSE j + 1 IN
       IF k + 1 <= Len(t) /\ IsDigitCode(t[k + 1]) THEN RunEndDigits(t, k + 1) ELSE j
  ELSE j
RECURSIVE TokFrom(_, _)
TokFrom(t, i) ==
  IF i > Len(t) THEN <<>>
  ELSE LET c == t[i] IN
    IF c = MINUS /\ i < Len(t) /\ IsNumCh(t[i + 1]) THEN
         LET e == ExpEnd(t, RunEndNum(t, i + 1)) IN <<SubSeq(t, i, e)>> \o TokFrom(t, e + 1)
    ELSE IF IsNumCh(c) THEN
         LET e == ExpEnd(t, RunEndNum(t, i)) IN <<SubSeq(t, i, e)>> \o TokFrom(t, e + 1)
    ELSE IF IsAlphaCode(c) THEN
         LET e == RunEndAlpha(t, i) IN <<SubSeq(t, i, e)>> \o TokFrom(t, e + 1)
    ELSE IF IsSpaceCode(c) THEN TokFrom(t, i + 1)
    ELSE <<<<c>>>> \o TokFrom(t, i + 1)
Tokenise(t) == TokFrom(t, 1)

\* a numeric token: optional '-', digits with at most one '.', at least one digit,
\* optionally followed by an exponent part
EPos(tok) == {k \in 1..Len(tok) : IsE(tok[k])}
Mant(tok) == IF EPos(tok) = {} THEN tok ELSE SubSeq(tok, 1, (CHOOSE k \in EPos(tok) : TRUE) - 1)
ExpPart(tok) == IF EPos(tok) = {} THEN <<>> ELSE SubSeq(tok, (CHOOSE k \in EPos(tok) : TRUE) + 1, Len(tok))
ExpVal(tok) == LET x == ExpPart(tok) IN
  IF x = <<>> THEN 0
  ELSE IF x[1] = MINUS THEN 0 - DecValue(Tail(x)) ELSE IF x[1] = 43 THEN DecValue(Tail(x)) ELSE DecValue(x)
Digits(tok) == {k \in 1..Len(tok) : IsDigitCode(tok[k])}
Dots(tok) == {k \in 1..Len(tok) : tok[k] = DOT}
IsMantissa(tok) ==
  /\ Len(tok) > 0
  /\ \A k \in 1..Len(tok) : IsNumCh(tok[k]) \/ (k = 1 /\ tok[k] = MINUS)
  /\ Cardinality(Dots(tok)) <= 1 /\ Digits(tok) # {}
IsNumTok(tok) ==
  /\ Cardinality(EPos(tok)) <= 1 /\ IsMantissa(Mant(tok))
  /\ EPos(tok) # {} => LET x == ExpPart(tok) IN
        /\ Len(x) > 0
        /\ LET d == IF x[1] \in {43, 45} THEN Tail(x) ELSE x IN AllDigits(d)
MantParts(tok) ==
  LET mt == Mant(tok)
      neg == mt[1] = MINUS
      body == IF neg THEN Tail(mt) ELSE mt
      ds == SelectSeq(body, IsDigitCode)
      dot == {k \in 1..Len(body) : body[k] = DOT}
  IN [neg |-> neg, n |-> DecValue(ds),
      frac |-> IF dot = {} THEN 0 ELSE Len(body) - (CHOOSE k \in dot : TRUE)]
\* its value as a Mag: digits without the dot, scaled by 10^(exponent - digits after the dot)
NumMag(tok) == LET p == MantParts(tok) IN
  MagMul(MagDec(IF p.neg THEN 0 - p.n ELSE p.n, 0), MagPow10(ExpVal(tok) - p.frac))
\* ... and as a rational (used for exponents)
NumRat(tok) == LET p == MantParts(tok) IN
  RMul(R(IF p.neg THEN 0 - p.n ELSE p.n), RPowI(R(10), ExpVal(tok) - p.frac))
AllAlpha(tok) == Len(tok) > 0 /\ \A k \in 1..Len(tok) : IsAlphaCode(tok[k])

\* ------------------------------------------------------------------ parser
Fail == [ok |-> FALSE]
OkAt(ast, i) == [ok |-> TRUE, ast |-> ast, i |-> i]
TkIs(ts, i, c) == i <= Len(ts) /\ ts[i] = <<c>>
CARET == 94
STAR == 42
SLASH == 47

RECURSIVE PExpr(_, _), PLoop(_, _, _), PFactor(_, _), PBase(_, _), PNumber(_, _)
PNumber(ts, i) ==
  IF TkIs(ts, i, LPAREN) THEN
       IF i + 2 <= Len(ts) /\ IsNumTok(ts[i + 1]) /\ ts[i + 2] = <<RPAREN>>
       THEN OkAt([k |-> "num", tok |-> ts[i + 1]], i + 3) ELSE Fail
  ELSE IF i <= Len(ts) /\ IsNumTok(ts[i]) THEN OkAt([k |-> "num", tok |-> ts[i]], i + 1)
  ELSE Fail
PBase(ts, i) ==
  IF i > Len(ts) THEN Fail
  ELSE IF ts[i] = <<LPAREN>> THEN
       LET e == PExpr(ts, i + 1) IN
       IF e.ok /\ TkIs(ts, e.i, RPAREN) THEN OkAt(e.ast, e.i + 1) ELSE Fail
  ELSE IF IsNumTok(ts[i]) THEN OkAt([k |-> "num", tok |-> ts[i]], i + 1)
  ELSE IF AllAlpha(ts[i]) THEN OkAt([k |-> "name", tok |-> ts[i]], i + 1)
  ELSE Fail
PFactor(ts, i) ==
  LET b == PBase(ts, i) IN
  IF ~b.ok THEN Fail
  ELSE IF TkIs(ts, b.i, CARET) THEN
       LET n == PNumber(ts, b.i + 1) IN
       IF n.ok THEN OkAt([k |-> "pow", b |-> b.ast, p |-> n.ast.tok], n.i) ELSE Fail
  ELSE b
PLoop(ts, i, left) ==
  IF i > Len(ts) THEN OkAt(left, i)
  ELSE IF ts[i] \in {<<STAR>>, <<SLASH>>} THEN
       LET f == PFactor(ts, i + 1) IN
       IF f.ok THEN PLoop(ts, f.i, [k |-> IF ts[i] = <<STAR>> THEN "mul" ELSE "div",
                                    l |-> left, r |-> f.ast])
       ELSE Fail
  ELSE LET f == PFactor(ts, i) IN          \* juxtaposition = product, if a factor follows
       IF f.ok THEN PLoop(ts, f.i, [k |-> "mul", l |-> left, r |-> f.ast])
       ELSE OkAt(left, i)
PExpr(ts, i) == LET f == PFactor(ts, i) IN IF f.ok THEN PLoop(ts, f.i, f.ast) ELSE Fail

Parse(ts) == LET e == PExpr(ts, 1) IN IF e.ok /\ e.i = Len(ts) + 1 THEN e ELSE Fail

\* ------------------------------------------------------------------ lookup
ZeroDims == <<RZero, RZero, RZero, RZero, RZero, RZero, RZero>>
NoUnit == [ok |-> FALSE]
Lookup(name) ==
  IF name \in UnitNames THEN [ok |-> TRUE, mag |-> UnitOf(name).mag, dim |-> UnitOf(name).dim]
  ELSE IF Len(name) > 1 /\ SubSeq(name, 1, 1) \in PrefixNames /\ Tail(name) \in UnitNames THEN
       LET u == UnitOf(Tail(name)) IN
       [ok |-> TRUE, mag |-> MagMul(MagPow10(PrefixExp(SubSeq(name, 1, 1))), u.mag), dim |-> u.dim]
  ELSE IF Len(name) > 2 /\ SubSeq(name, 1, 2) \in PrefixNames /\ SubSeq(name, 3, Len(name)) \in UnitNames THEN
       LET u == UnitOf(SubSeq(name, 3, Len(name))) IN
       [ok |-> TRUE, mag |-> MagMul(MagPow10(PrefixExp(SubSeq(name, 1, 2))), u.mag), dim |-> u.dim]
  ELSE NoUnit

\* ------------------------------------------------------------------ evaluation
DAdd(a, b) == [k \in 1..7 |-> RAdd(a[k], b[k])]
DSub(a, b) == [k \in 1..7 |-> RSub(a[k], b[k])]
DScale(a, p) == [k \in 1..7 |-> RMul(a[k], p)]
Val(m, d) == [ok |-> TRUE, mag |-> m, dim |-> d]

RECURSIVE Eval(_)
Eval(a) ==
  CASE a.k = "num" -> Val(NumMag(a.tok), ZeroDims)
    [] a.k = "name" -> Lookup(a.tok)
    [] a.k = "pow" -> LET b == Eval(a.b) p == NumRat(a.p) IN
                      IF b.ok THEN Val(MagPow(b.mag, p), DScale(b.dim, p)) ELSE b
    [] a.k \in {"mul", "div"} ->
         LET l == Eval(a.l) r == Eval(a.r) IN
         IF ~l.ok THEN l ELSE IF ~r.ok THEN r
         ELSE IF a.k = "mul" THEN Val(MagMul(l.mag, r.mag), DAdd(l.dim, r.dim))
         ELSE Val(MagDiv(l.mag, r.mag), DSub(l.dim, r.dim))

ParseErr == [ok |-> FALSE, cls |-> "UnitsParseError"]
\* value of a text: a quantity (mag, dim), or the units parse error
EvalText(t) ==
  LET p == Parse(Tokenise(t)) IN
  IF ~p.ok THEN ParseErr
  ELSE LET v == Eval(p.ast) IN IF v.ok THEN v ELSE ParseErr

\* conversion: the ratio of magnitudes when the dimensions agree
Convert(q, u) == IF q.dim = u.dim THEN [ok |-> TRUE, mag |-> MagDiv(q.mag, u.mag)]
                 ELSE [ok |-> FALSE, cls |-> "UnitsError"]
=============================================================================
