------------------------------- MODULE Text -------------------------------
(* Text as sequences of code points (TLA+ strings have no order and TLC   *)
(* cannot index them).  Everything pgradd compares or sorts as a Python   *)
(* str is a Seq(Nat) here; Python orders str by code point, lexicographic.*)
EXTENDS Integers, Sequences, FiniteSets, SequencesExt, FiniteSetsExt

LPAREN == 40
RPAREN == 41
IsDigitCode(c) == c >= 48 /\ c <= 57
IsAlphaCode(c) == (c >= 65 /\ c <= 90) \/ (c >= 97 /\ c <= 122)
IsSpaceCode(c) == c \in {32, 9, 10, 13, 11, 12}

MinI(a, b) == IF a <= b THEN a ELSE b
MaxI(a, b) == IF a >= b THEN a ELSE b

\* strict lexicographic order on code-point sequences (Python str <)
LexLess(a, b) ==
  LET n == MinI(Len(a), Len(b))
      d == {i \in 1..n : a[i] # b[i]}
  IN IF d = {} THEN Len(a) < Len(b)
     ELSE LET k == CHOOSE i \in d : \A j \in d : i <= j IN a[k] < b[k]

SortTexts(S) == SetToSortSeq(S, LexLess)

AllDigits(t) == Len(t) > 0 /\ \A i \in 1..Len(t) : IsDigitCode(t[i])

RECURSIVE DecValue(_)
DecValue(t) == IF t = <<>> THEN 0
               ELSE 10 * DecValue(SubSeq(t, 1, Len(t) - 1)) + (t[Len(t)] - 48)

RECURSIVE DecText(_)
DecText(n) == IF n < 10 THEN <<48 + n>>
              ELSE DecText(n \div 10) \o <<48 + (n % 10)>>

\* split `t` at every code point in `seps` (Python re.split('[..]', t))
RECURSIVE SplitAt(_, _)
SplitAt(t, seps) ==
  LET idx == {i \in 1..Len(t) : t[i] \in seps}
  IN IF idx = {} THEN <<t>>
     ELSE LET k == CHOOSE i \in idx : \A j \in idx : i <= j
          IN <<SubSeq(t, 1, k - 1)>> \o SplitAt(SubSeq(t, k + 1, Len(t)), seps)

RECURSIVE ConcatAll(_)
ConcatAll(ss) == IF ss = <<>> THEN <<>> ELSE Head(ss) \o ConcatAll(Tail(ss))

\* multiset of a sequence, as a function elem -> count
BagOf(s) == [x \in {s[i] : i \in 1..Len(s)} |-> Cardinality({i \in 1..Len(s) : s[i] = x})]
=============================================================================
