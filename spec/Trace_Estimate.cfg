SPECIFICATION TSpec
INVARIANT Finish
PROPERTY SessionReadOnly
CHECK_DEADLOCK FALSE
