------------------------------ MODULE MC_Merge ------------------------------
(* Exhaustive small world for C13.  Datum universe for one group:            *)
(*   H in {absent, 0, 1}; S in {absent, 0, 2}; Cp points at temperatures     *)
(*   Temps with values {0, 3, 4}; range in {absent, r1, r2} (a record with   *)
(*   Cp points carries a range).  The merged records are action parameters,  *)
(*   so the state graph is the set of reachable accumulated records.         *)
EXTENDS Merge, Json, IOUtils, SequencesExt

CONSTANTS NT, WithTriples

Temps == 1..NT                       \* temperature tokens (harness: 300 K, 500 K, 800 K)
Vals == {0, 3, 4}                    \* Cp value tokens (0 is a value)
Ranges == {<<1, 2>>, <<0, 3>>}       \* (harness: [298, 900], [250, 1500])
CpMaps == UNION {[D -> Vals] : D \in SUBSET Temps}
Recs == TLCEval({r \in [h : {Absent, <<0>>, <<1>>}, s : {Absent, <<0>>, <<2>>},
                        cp : CpMaps, rng : {Absent} \cup Ranges] :
                   (DOMAIN r.cp # {}) => Has(r.rng)})

\* ---------------------------------------------------------- state machine
MInit == CorrInit(EmptyRec)
MNext == \E src \in Recs, ow \in BOOLEAN : CorrUpdate(src, ow)

\* a rejected merge leaves the correlation unchanged
Atomic == [][merr' = "ReadOnlyDataError" => macc' = macc]_mvars
\* the accumulated record is always well formed
WellFormed == macc \in Recs
\* range only ever grows (hull), data are never lost without overwrite
Monotone == [][/\ Hull(macc.rng, macc'.rng) = macc'.rng
               /\ DOMAIN macc.cp \subseteq DOMAIN macc'.cp
               /\ (Has(macc.h) => Has(macc'.h)) /\ (Has(macc.s) => Has(macc'.s))]_mvars

\* ---------------------------------------------------------- model theorems
\* rejected exactly when a shared datum differs and overwriting is off
ASSUME ConflictIff == \A a \in Recs, b \in Recs :
  /\ Upd(a, b, FALSE).ok <=> ~Conflict(a, b)
  /\ Upd(a, b, TRUE).ok
  /\ ~Upd(a, b, FALSE).ok => Upd(a, b, FALSE).rec = a
\* merging the same data twice changes nothing
ASSUME Idempotent == \A a \in Recs, b \in Recs, ow \in BOOLEAN :
  LET u == Upd(a, b, ow) IN u.ok => Upd(u.rec, b, ow) = u
\* with overwrite the later value wins
ASSUME Overwrite == \A a \in Recs, b \in Recs :
  LET u == Upd(a, b, TRUE).rec IN
  /\ (Has(b.h) => u.h = b.h) /\ (Has(b.s) => u.s = b.s)
  /\ \A t \in DOMAIN b.cp : u.cp[t] = b.cp[t]
\* zero is a value like any other: it is merged and it conflicts
ASSUME ZeroIsAValue ==
  LET z == [EmptyRec EXCEPT !.h = <<0>>] o == [EmptyRec EXCEPT !.h = <<1>>] IN
  /\ Upd(EmptyRec, z, FALSE).rec.h = <<0>> /\ ~Upd(z, o, FALSE).ok /\ ~Upd(o, z, FALSE).ok
\* order-free union: non-conflicting merges commute (diamond) ...
ASSUME Diamond == \A a \in Recs, b \in Recs :
  ~Conflict(a, b) => Union2(a, b) = Union2(b, a)
\* ... for every accumulated state (all triples; gives any length by induction)
Triples == IF WithTriples THEN Recs ELSE {r \in Recs : DOMAIN r.cp \subseteq {1}}
ASSUME DiamondAcc == \A acc \in Triples, a \in Triples, b \in Triples :
  (~Conflict(acc, a) /\ ~Conflict(acc, b) /\ ~Conflict(a, b)) =>
     /\ Upd(Upd(acc, a, FALSE).rec, b, FALSE).ok /\ Upd(Upd(acc, b, FALSE).rec, a, FALSE).ok
     /\ Upd(Upd(acc, a, FALSE).rec, b, FALSE).rec = Upd(Upd(acc, b, FALSE).rec, a, FALSE).rec
\* ... and a conflict is found whatever the order
ASSUME ConflictAnyOrder == \A acc \in Triples, a \in Triples, b \in Triples :
  (Conflict(acc, a) \/ Conflict(acc, b) \/ Conflict(a, b)) =>
     /\ ~(Upd(acc, a, FALSE).ok /\ Upd(Upd(acc, a, FALSE).rec, b, FALSE).ok)
     /\ ~(Upd(acc, b, FALSE).ok /\ Upd(Upd(acc, b, FALSE).rec, a, FALSE).ok)

\* ---------------------------------------------------------- export
\* every transition (acc, src, ow) -> (acc', err) from every reachable acc
\* (reachable = Recs: every record is reachable from the empty one in one step)
Shard == atoi(IOEnv.SHARD)
NShard == atoi(IOEnv.NSHARD)
RecSeq == TLCEval(SetToSeq(Recs))
RecIdx(r) == CHOOSE x \in 1..Len(RecSeq) : RecSeq[x] = r
Export == JsonSerialize(IOEnv.VOUT,
   [recs |-> RecSeq,
    trans |-> {<<i, j, ow, Upd(RecSeq[i], RecSeq[j], ow).ok,
                 RecIdx(Upd(RecSeq[i], RecSeq[j], ow).rec)>> :
                 i \in {x \in 1..Len(RecSeq) : x % NShard = Shard}, j \in 1..Len(RecSeq), ow \in BOOLEAN}])
Post == TLCGet("stats").diameter > 0 /\ Export
=============================================================================
