CONSTANTS
  MaxDepth = 3
  NDims = 15
INIT MInit
NEXT MNext
CONSTRAINT Depth
CONSTRAINT Small
INVARIANT InvWellFormed
PROPERTY ErrKeeps
POSTCONDITION Post
CHECK_DEADLOCK FALSE
