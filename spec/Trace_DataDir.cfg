CONSTANTS
  Dirs = {"pkg", "d1", "d2"}
  Has <- MCHas
  Names = {"both", "onlyd1", "onlypkg"}
  EnvValues = {"unset", "", "d1", "d2", "nodir"}
  Variant = "faithful"
SPECIFICATION TSpec
INVARIANT Finish
PROPERTY TraceCacheStable
CHECK_DEADLOCK FALSE
