------------------------------- MODULE Network -------------------------------
(* C17: generation of a reaction network = closure of the seeds under the    *)
(* rules, as the work-list machine of the generator:                          *)
(*   unprocessed (a stack: new species are put in front), processed.          *)
(*   Pop       : take the first unprocessed species, put it in front of       *)
(*               processed; it becomes the current reactant                   *)
(*   Apply(r)  : the products of rule r on the current reactant (Succ, already *)
(*               valence-filtered, without repetitions inside one list) are   *)
(*               considered one by one (Push / Skip)                          *)
(*   Push(p)   : p is not known yet -> in front of unprocessed                *)
(*   Skip(p)   : p is already known                                           *)
(* "Known" in the design: in processed or still in unprocessed.  The code's   *)
(* original deviation (looking at processed only) is the named variant        *)
(* KnownProcessedOnly, used to exhibit the duplicate and to classify traces.  *)
EXTENDS Integers, Sequences, FiniteSets, TLC

CONSTANTS Species,      \* finite set of species identifiers
          NRules,       \* rules are 1..NRules
          ProcessedOnly \* TRUE = the deviation (duplicate check against processed only)

VARIABLES vsucc,   \* Succ[r][s] : Seq(Species) - products of rule r on species s (chosen at Init)
          vunproc, vproc,
          vcur,    \* current reactant (0 = none)
          vrule,   \* next rule to apply to the current reactant
          vpend    \* products of the current rule still to be considered
nvars == <<vsucc, vunproc, vproc, vcur, vrule, vpend>>

SeqSet(s) == {s[k] : k \in 1..Len(s)}
NoDup(s) == Cardinality(SeqSet(s)) = Len(s)
Known(p) == p \in SeqSet(vproc) \/ (~ProcessedOnly /\ p \in SeqSet(vunproc))

NInit(seeds, succ) == /\ vsucc = succ /\ vunproc = seeds /\ vproc = <<>>
                      /\ vcur = 0 /\ vrule = 0 /\ vpend = <<>>
Pop == /\ vcur = 0 /\ vunproc # <<>>
       /\ vcur' = Head(vunproc) /\ vproc' = <<Head(vunproc)>> \o vproc
       /\ vunproc' = Tail(vunproc) /\ vrule' = 1 /\ vpend' = <<>> /\ UNCHANGED vsucc
Apply == /\ vcur # 0 /\ vpend = <<>> /\ vrule <= NRules
         /\ vpend' = vsucc[vrule][vcur] /\ vrule' = vrule + 1
         /\ UNCHANGED <<vsucc, vunproc, vproc, vcur>>
Push == /\ vpend # <<>> /\ ~Known(Head(vpend))
        /\ vunproc' = <<Head(vpend)>> \o vunproc /\ vpend' = Tail(vpend)
        /\ UNCHANGED <<vsucc, vproc, vcur, vrule>>
Skip == /\ vpend # <<>> /\ Known(Head(vpend))
        /\ vpend' = Tail(vpend) /\ UNCHANGED <<vsucc, vunproc, vproc, vcur, vrule>>
Done1 == /\ vcur # 0 /\ vpend = <<>> /\ vrule > NRules
         /\ vcur' = 0 /\ vrule' = 0 /\ UNCHANGED <<vsucc, vunproc, vproc, vpend>>
NNext == Pop \/ Apply \/ Push \/ Skip \/ Done1
Finished == vcur = 0 /\ vunproc = <<>>

\* closure of a seed set under a successor relation (least fixed point)
RECURSIVE Closure(_, _)
Step1(S, succ) == S \cup UNION {UNION {SeqSet(succ[r][s]) : r \in DOMAIN succ} : s \in S}
Closure(S, succ) == IF Step1(S, succ) = S THEN S ELSE Closure(Step1(S, succ), succ)

\* ---------------------------------------------------------------- properties
\* nothing but closure members is ever listed, and no species twice
Sound == SeqSet(vproc) \cup SeqSet(vunproc) \subseteq Closure(SeqSet(vproc) \cup SeqSet(vunproc), vsucc)
NoDuplicates == NoDup(vproc) /\ (~ProcessedOnly => NoDup(vproc \o vunproc))
\* at the end: exactly the closure of the seeds (seeds are the initial unprocessed list)
=============================================================================
