---------------------------- MODULE Trace_Estimate ----------------------------
(* Trace validation for C01/C06/C07/C20 on real libraries.  One trace = one   *)
(* library session: "lib" (facts about the groups used: has data, has Cp/H/S, *)
(* ranks of T_ref and range), then "estimate" / "eval" / "evaldim" / "se".    *)
(* Temperatures are ranks.  TLC decides: which groups the missing-data error  *)
(* must name, the range intersection, the outcome class of every evaluation,  *)
(* and the form of every value (linear form over the constituents; product    *)
(* with T and R(units); element counts for the elemental reference; x'Mx).    *)
EXTENDS Estimate, Json, IOUtils, Sequences

In == JsonDeserialize(IOEnv.VIN)
Traces == In.traces

VARIABLES vtid, vpos, vbad, vhow
tvars == <<vlib, vest, veout, vtid, vpos, vbad, vhow>>

\* group facts -> a general correlation record (ranks as rationals; no polynomial)
Fact2Corr(f) ==
  IF ~f.has THEN NoData
  ELSE [ts |-> IF f.cp = <<>> THEN <<>> ELSE <<R(f.cp[1]), R(f.cp[2])>>, P |-> <<>>, tref |-> R(f.tref),
        h |-> IF f.h THEN <<RZero>> ELSE <<>>, s |-> IF f.s THEN <<RZero>> ELSE <<>>,
        rng |-> IF f.rng = <<>> THEN <<>> ELSE <<R(f.rng[1]), R(f.rng[2])>>]
LibOf(fs) == [g \in {fs[k].name : k \in 1..Len(fs)} |->
                Fact2Corr(fs[CHOOSE k \in 1..Len(fs) : fs[k].name = g])]
MapOf(xs) == [k \in 1..Len(xs) |-> <<xs[k][1], <<xs[k][2][1], xs[k][2][2]>> >>]

TInit == EInit(<<>>) /\ vtid = 1 /\ vpos = 1 /\ vbad = {} /\ vhow = <<>>

Mark(ok) == vbad' = IF ok THEN vbad ELSE vbad \cup {<<vtid, vpos>>}

\* dimensional forms (C07): which non-dimensional property, whether multiplied by T,
\* which gas-constant entry; G(T,u) = H(T,u) - T*S(T,u)
DimForm(prop) == CASE prop = "H" -> [nd |-> "H", mulT |-> TRUE, perK |-> TRUE]
                   [] prop = "S" -> [nd |-> "S", mulT |-> FALSE, perK |-> FALSE]
                   [] prop = "Cp" -> [nd |-> "Cp", mulT |-> FALSE, perK |-> FALSE]
                   [] prop = "G" -> [nd |-> "G", mulT |-> TRUE, perK |-> TRUE]
\* elemental reference: one entry per element with its atom count (hydrogens included)
ElemTerms(atoms) == LET zs == {atoms[k] : k \in 1..Len(atoms)} IN
  {<<z, Cardinality({k \in 1..Len(atoms) : atoms[k] = z})>> : z \in zs}

TStep ==
  /\ vtid <= Len(Traces)
  /\ IF vpos > Len(Traces[vtid]) THEN
        /\ vtid' = vtid + 1 /\ vpos' = 1 /\ vlib' = <<>> /\ vest' = NoEst /\ veout' = [k |-> "none"]
        /\ UNCHANGED <<vbad, vhow>>
     ELSE LET e == Traces[vtid][vpos] IN
        /\ vpos' = vpos + 1 /\ vtid' = vtid
        /\ \/ /\ e.op = "lib" /\ vlib' = LibOf(e.groups) /\ UNCHANGED <<vest, veout>>
              /\ Mark(TRUE) /\ vhow' = Append(vhow, [k |-> "lib"])
           \/ /\ e.op = "estimate"
              /\ DoEstimate(MapOf(e.x), IF e.basis = <<>> THEN <<>> ELSE [basis |-> e.basis, M |-> e.M])
              /\ Mark(IF vest'.ok THEN e.obs.ok /\ e.obs.rng = (IF vest'.rng = <<>> THEN <<>> ELSE <<vest'.rng[1][1], vest'.rng[2][1]>>)
                      ELSE IF vest'.cls = "GroupMissingDataError"
                           THEN ~e.obs.ok /\ e.obs.cls = vest'.cls /\ {e.obs.groups[k] : k \in 1..Len(e.obs.groups)} = vest'.groups
                                /\ Len(e.obs.groups) = Cardinality(vest'.groups)
                           ELSE ~e.obs.ok)
              /\ vhow' = Append(vhow, vest')
           \/ /\ e.op \in {"eval", "evaldim"} /\ UNCHANGED <<vlib, vest>>
              /\ IF vest.ok THEN
                    LET x == EstHow(vlib, vest.x, e.prop, R(e.t)) IN
                    /\ veout' = x
                    /\ Mark(IF x.k = "error" THEN e.obs.k = "error" /\ e.obs.cls = "IncompleteDataError"
                            ELSE e.obs.k = x.k)
                    /\ vhow' = Append(vhow,
                         IF x.k = "error" THEN x
                         ELSE IF e.op = "eval" THEN x
                         ELSE [k |-> x.k, form |-> x.form, dim |-> DimForm(e.prop),
                               elems |-> IF e.sel THEN ElemTerms(e.atoms) ELSE {}])
                 ELSE veout' = veout /\ Mark(TRUE) /\ vhow' = Append(vhow, [k |-> "skipped"])
           \/ /\ e.op = "se" /\ UNCHANGED <<vlib, vest, veout>>
              /\ IF vest.ok THEN
                    /\ Mark(e.obs.k = "value")
                    /\ vhow' = Append(vhow, [k |-> "value", q |-> vest.q])
                 ELSE Mark(TRUE) /\ vhow' = Append(vhow, [k |-> "skipped"])
TSpec == TInit /\ [][TStep]_tvars
Done == vtid > Len(Traces)
Finish == Done => JsonSerialize(IOEnv.VOUT, [bad |-> SetToSeq(vbad), how |-> vhow, done |-> TRUE])
\* estimating and evaluating never change the library of the session
SessionReadOnly == [][vtid' = vtid /\ vpos # 1 => vlib' = vlib]_tvars
=============================================================================
