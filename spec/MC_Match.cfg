INIT Init
NEXT Next
INVARIANT WellFormedMatches
POSTCONDITION Post
CHECK_DEADLOCK FALSE
