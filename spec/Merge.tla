-------------------------------- MODULE Merge --------------------------------
(* C13: merging thermochemical data.  Three layers, each an action system:  *)
(*   correlation  CorrUpdate(src, ow)   - the conflict-checked union of two  *)
(*                                        partial correlations (commit last) *)
(*   library      LibUpdate(other, ow)  - group by group, copy on first sight*)
(*   file tree    LoadTree(t)           - own groups (duplicate spellings    *)
(*                                        rejected), then one LibUpdate per  *)
(*                                        include, recursively               *)
(* A datum is the reference enthalpy, the reference entropy, one Cp point    *)
(* (keyed by temperature) or the valid range (hull semantics).  The value 0  *)
(* is a value; "absent" is <<>>.  All files share one reference temperature. *)
EXTENDS Integers, Sequences, FiniteSets, TLC

Absent == <<>>
Has(x) == x # Absent
EmptyRec == [h |-> Absent, s |-> Absent, cp |-> <<>>, rng |-> Absent]

MinI2(a, b) == IF a <= b THEN a ELSE b
MaxI2(a, b) == IF a >= b THEN a ELSE b
Hull(r1, r2) == IF ~Has(r1) THEN r2 ELSE IF ~Has(r2) THEN r1
                ELSE <<MinI2(r1[1], r2[1]), MaxI2(r1[2], r2[2])>>

\* the data two records disagree on
CpConflicts(a, b) == {t \in DOMAIN a.cp \cap DOMAIN b.cp : a.cp[t] # b.cp[t]}
HConflict(a, b) == Has(a.h) /\ Has(b.h) /\ a.h # b.h
SConflict(a, b) == Has(a.s) /\ Has(b.s) /\ a.s # b.s
Conflict(a, b) == CpConflicts(a, b) # {} \/ HConflict(a, b) \/ SConflict(a, b)

\* union, the later record winning on shared data (identical when no conflict)
Union2(a, b) ==
  [h |-> IF Has(b.h) THEN b.h ELSE a.h,
   s |-> IF Has(b.s) THEN b.s ELSE a.s,
   cp |-> [t \in DOMAIN a.cp \cup DOMAIN b.cp |-> IF t \in DOMAIN b.cp THEN b.cp[t] ELSE a.cp[t]],
   rng |-> Hull(a.rng, b.rng)]

\* the update as a function: result record, or the error with the record kept
Upd(a, b, ow) == IF ~ow /\ Conflict(a, b) THEN [ok |-> FALSE, rec |-> a]
                 ELSE [ok |-> TRUE, rec |-> Union2(a, b)]

\* ------------------------------------------------------------ correlation
VARIABLES macc,    \* the correlation being built (a record)
          merr     \* outcome of the last update: "ok" | "ReadOnlyDataError"
mvars == <<macc, merr>>

CorrInit(r) == macc = r /\ merr = "ok"
CorrUpdate(src, ow) ==
  LET u == Upd(macc, src, ow) IN
  /\ macc' = u.rec
  /\ merr' = IF u.ok THEN "ok" ELSE "ReadOnlyDataError"

\* ------------------------------------------------------------ library
\* a library: function canonical group name -> record
LibUpd(lib, other, ow) ==
  \* groups are visited in the order of `order` (a sequence of names of `other`);
  \* the first conflicting group stops the merge, earlier groups stay merged
  LET RECURSIVE Go(_, _)
      Go(l, names) ==
        IF names = <<>> THEN [ok |-> TRUE, lib |-> l]
        ELSE LET g == Head(names) IN
             IF g \notin DOMAIN l THEN
                  Go([x \in DOMAIN l \cup {g} |-> IF x = g THEN other.lib[g] ELSE l[x]], Tail(names))
             ELSE LET u == Upd(l[g], other.lib[g], ow) IN
                  IF u.ok THEN Go([l EXCEPT ![g] = u.rec], Tail(names))
                  ELSE [ok |-> FALSE, lib |-> l, at |-> g]
  IN Go(lib, other.order)

\* ------------------------------------------------------------ file tree
\* a file: [groups : Seq([name, key, rec])   name = spelling, key = canonical name
\*          includes : Seq(file)]
\* Loading: own groups in order (a second entry with an already seen key is the
\* duplicate-definition error), then each include is loaded and merged in order.
RECURSIVE LoadTree(_)
OwnGroups(f) ==
  LET RECURSIVE Go(_, _, _)
      Go(l, ord, gs) ==
        IF gs = <<>> THEN [ok |-> TRUE, lib |-> l, order |-> ord]
        ELSE LET g == Head(gs) IN
             IF g.key \in DOMAIN l THEN [ok |-> FALSE, err |-> "KeyError"]
             ELSE Go([x \in DOMAIN l \cup {g.key} |-> IF x = g.key THEN g.rec ELSE l[x]],
                     Append(ord, g.key), Tail(gs))
  IN Go(<<>>, <<>>, f.groups)
LoadTree(f) ==
  LET own == OwnGroups(f)
      RECURSIVE Inc(_, _, _)
      Inc(l, ord, incs) ==
        IF incs = <<>> THEN [ok |-> TRUE, lib |-> l, order |-> ord]
        ELSE LET child == LoadTree(Head(incs)) IN
             IF ~child.ok THEN child
             ELSE LET u == LibUpd(l, child, FALSE) IN
                  IF ~u.ok THEN [ok |-> FALSE, err |-> "ReadOnlyDataError"]
                  ELSE Inc(u.lib,
                           ord \o SelectSeq(child.order, LAMBDA k : k \notin DOMAIN l),
                           Tail(incs))
  IN IF ~own.ok THEN own ELSE Inc(own.lib, own.order, f.includes)
=============================================================================
