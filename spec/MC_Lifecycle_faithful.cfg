CONSTANTS
  Handles = {1, 2}
  LibNames = {"L1", "L2"}
  Mols = {"m1", "m2"}
  Props = {"S"}
  Temps = {1}
  Groups = {"g"}
  MaxObjs = 2
  Faithful = TRUE
INIT LInit
NEXT LNext
CONSTRAINT Bound
INVARIANT HistoryFree
PROPERTY ReadOnly
CHECK_DEADLOCK FALSE
