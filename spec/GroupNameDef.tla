--------------------------- MODULE GroupNameDef ---------------------------
(* C19: identity of a group = centre name + multiset of peripheral names.  *)
(* Hand transcription of the documented meaning of group names (docstring  *)
(* of Group.parse and Group.__init__), not of the code:                    *)
(*   name ::= centre { '(' peripheral ')' [count] }                        *)
(* The canonical name lists the distinct peripherals in code-point order,  *)
(* each followed by its count when the count is not one.                   *)
(*                                                                         *)
(* (definitions only; the dictionary state machine is in GroupName.tla)    *)
EXTENDS Text, TLC

\* ---------------------------------------------------------------- meaning
GroupErr == [ok |-> FALSE, err |-> "GroupSyntaxError"]

\* Fold over the parts after the centre, with the pending peripheral `nxt`
\* (<<>> = none).  A number applies to the pending peripheral; a number with
\* nothing pending is the documented syntax error.
RECURSIVE ParseParts(_, _, _)
ParseParts(parts, nxt, acc) ==
  IF parts = <<>> THEN
     [ok |-> TRUE, psgs |-> IF nxt = <<>> THEN acc ELSE Append(acc, nxt)]
  ELSE LET p == Head(parts) rest == Tail(parts) IN
     IF p = <<>> THEN ParseParts(rest, nxt, acc)
     ELSE IF AllDigits(p) THEN
        IF nxt = <<>> THEN GroupErr
        ELSE ParseParts(rest, <<>>,
                        acc \o [i \in 1..DecValue(p) |-> nxt])
     ELSE ParseParts(rest, p, IF nxt = <<>> THEN acc ELSE Append(acc, nxt))

ParseG(text) ==
  LET parts == SplitAt(text, {LPAREN, RPAREN})
      r == ParseParts(Tail(parts), <<>>, <<>>)
  IN IF r.ok THEN [ok |-> TRUE, csg |-> Head(parts), psgs |-> r.psgs] ELSE r

RECURSIVE CanonParts(_, _)
CanonParts(names, bag) ==
  IF names = <<>> THEN <<>>
  ELSE LET n == Head(names) IN
       (<<LPAREN>> \o n \o <<RPAREN>>
        \o (IF bag[n] = 1 THEN <<>> ELSE DecText(bag[n])))
       \o CanonParts(Tail(names), bag)

Canon(csg, psgs) ==
  LET bag == BagOf(psgs) IN csg \o CanonParts(SortTexts(DOMAIN bag), bag)

SameGroup(g, h) == g.csg = h.csg /\ BagOf(g.psgs) = BagOf(h.psgs)
=============================================================================
