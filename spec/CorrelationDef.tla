--------------------------- MODULE CorrelationDef ---------------------------
(* C05 / C06 (and the constituents of C01, C07, C18): a thermochemical       *)
(* correlation built from a heat-capacity table and reference values.        *)
(*                                                                           *)
(* Meaning (from the class documentation, not from the code's case split):   *)
(*   Cp*(t) = Cp(T_min) for t < T_min, the interpolant on [T_min, T_max],    *)
(*            Cp(T_max) for t > T_max                                        *)
(*   T*H(T) = T_ref*H_ref + INT_{T_ref}^{T} Cp*(t) dt                        *)
(*   S(T)   = S_ref       + INT_{T_ref}^{T} Cp*(t)/t dt                      *)
(*   G = H - S                                                               *)
(* For the exact families used by the model the interpolant is a polynomial  *)
(* P of degree <= min(3, N-1) (the interpolating spline of that order        *)
(* reproduces it), so every integral has a closed form: a rational plus      *)
(* rational multiples of ln(rational).  Temperatures are rationals on an     *)
(* abstract grid (the harness maps one grid unit to 100 K; H/RT, S/R, Cp/R   *)
(* are invariant under that scaling).                                        *)
EXTENDS Rat, FiniteSets, TLC, SequencesExt

\* ---------------------------------------------------------------- polynomials
\* P = <<c0, c1, c2, c3>> (integers), P(t) = c0 + c1 t + c2 t^2 + c3 t^3
PolyAt(P, t) == RSum([k \in 1..Len(P) |-> RMul(R(P[k]), RPowI(t, k - 1))])
\* INT_a^b P dt
PolyInt(P, a, b) ==
  RSum([k \in 1..Len(P) |-> RMul(<<P[k], k>>, RSub(RPowI(b, k), RPowI(a, k)))])
\* INT_a^b P/t dt = c0 ln(b/a) + SUM_{k>=1} c_k (b^k - a^k)/k   (a, b > 0)
PolyIntOverT(P, a, b) ==
  [rat |-> RSum([k \in 1..Len(P) |-> IF k = 1 THEN RZero
                  ELSE RMul(<<P[k], k - 1>>, RSub(RPowI(b, k - 1), RPowI(a, k - 1)))]),
   lns |-> IF P[1] = 0 \/ a = b THEN <<>> ELSE << <<R(P[1]), RDiv(b, a)>> >>]

\* ---------------------------------------------------------------- terms
\* an expectation term: rat + SUM coef * ln(arg)
Term(r, l) == [rat |-> r, lns |-> l]
\* normal form of the ln part: one entry per argument, zero coefficients dropped
LnNorm(l) == LET args == {l[k][2] : k \in 1..Len(l)}
                 Coef(a) == RSum(SelectSeq([k \in 1..Len(l) |-> IF l[k][2] = a THEN l[k][1] ELSE RZero],
                                           LAMBDA z : TRUE))
             IN SetToSeq({<<Coef(a), a>> : a \in {b \in args : ~RIsZero(Coef(b))}})
TAdd(x, y) == Term(RAdd(x.rat, y.rat), LnNorm(x.lns \o y.lns))
TNeg(x) == Term(RNeg(x.rat), [k \in 1..Len(x.lns) |-> <<RNeg(x.lns[k][1]), x.lns[k][2]>>])
TSub(x, y) == TAdd(x, TNeg(y))
TRat(r) == Term(r, <<>>)
TLn(c, arg) == IF RIsZero(c) \/ arg = ROne THEN TRat(RZero) ELSE Term(RZero, << <<c, arg>> >>)

\* ---------------------------------------------------------------- a correlation
\* [ts: ascending Seq(Rat), P: polynomial or <<>> when no Cp data,
\*  tref, h, s: <<>> or <<Rat>>, rng: <<>> or <<lo, hi>>]
HasCp(c) == c.ts # <<>>
TMin(c) == c.ts[1]
TMax(c) == c.ts[Len(c.ts)]
\* the effective range of a correlation with Cp data: its own, else the table span
EffRange(c) == IF c.rng # <<>> THEN c.rng ELSE <<TMin(c), TMax(c)>>
InRange(c, t) == LET r == EffRange(c) IN RLe(r[1], t) /\ RLe(t, r[2])

CpStar(c, t) == IF RLt(t, TMin(c)) THEN PolyAt(c.P, TMin(c))
                ELSE IF RLt(TMax(c), t) THEN PolyAt(c.P, TMax(c))
                ELSE PolyAt(c.P, t)
\* G(x) = INT_{T_min}^{x} Cp* dt
GInt(c, x) ==
  IF RLt(x, TMin(c)) THEN RMul(PolyAt(c.P, TMin(c)), RSub(x, TMin(c)))
  ELSE IF RLt(TMax(c), x) THEN RAdd(PolyInt(c.P, TMin(c), TMax(c)),
                                    RMul(PolyAt(c.P, TMax(c)), RSub(x, TMax(c))))
  ELSE PolyInt(c.P, TMin(c), x)
\* L(x) = INT_{T_min}^{x} Cp*/t dt  (a term)
LInt(c, x) ==
  IF RLt(x, TMin(c)) THEN TLn(PolyAt(c.P, TMin(c)), RDiv(x, TMin(c)))
  ELSE IF RLt(TMax(c), x) THEN
       LET p == PolyIntOverT(c.P, TMin(c), TMax(c)) IN
       TAdd(Term(p.rat, p.lns), TLn(PolyAt(c.P, TMax(c)), RDiv(x, TMax(c))))
  ELSE LET p == PolyIntOverT(c.P, TMin(c), x) IN Term(p.rat, p.lns)

HTerm(c, t) == TRat(RDiv(RAdd(RMul(c.tref, c.h[1]), RSub(GInt(c, t), GInt(c, c.tref))), t))
STerm(c, t) == TAdd(TRat(c.s[1]), TSub(LInt(c, t), LInt(c, c.tref)))

\* ---------------------------------------------------------------- integration plan
\* For a general table (no closed form) the change of T*H and of S between two
\* temperatures a and b is the sum over the segments of [a, b] cut at T_min and
\* T_max; each segment is integrated with the low end value, the interpolant, or
\* the high end value.  Orientation: sign = -1 when b < a.  (Works on any ordered
\* temperatures: rationals here, ranks of real temperatures in trace validation.)
Seg(kind, x, y) == [kind |-> kind, a |-> x, b |-> y]
PlanUp(a, b, tmin, tmax) ==      \* a <= b
  (IF RLt(a, tmin) THEN <<Seg("low", a, RMin(b, tmin))>> ELSE <<>>) \o
  (IF RLt(a, tmax) /\ RLt(tmin, b) THEN <<Seg("mid", RMax(a, tmin), RMin(b, tmax))>> ELSE <<>>) \o
  (IF RLt(tmax, b) THEN <<Seg("high", RMax(a, tmax), b)>> ELSE <<>>)
Plan(a, b, tmin, tmax) == IF RLe(a, b) THEN [sign |-> 1, segs |-> PlanUp(a, b, tmin, tmax)]
                          ELSE [sign |-> 0 - 1, segs |-> PlanUp(b, a, tmin, tmax)]
\* value of a plan on the polynomial model (ties the plan to the closed forms)
SegInt(c, sg) == CASE sg.kind = "low" -> RMul(PolyAt(c.P, TMin(c)), RSub(sg.b, sg.a))
                   [] sg.kind = "high" -> RMul(PolyAt(c.P, TMax(c)), RSub(sg.b, sg.a))
                   [] sg.kind = "mid" -> PolyInt(c.P, sg.a, sg.b)
PlanInt(c, pl) == RMul(R(pl.sign), RSum([k \in 1..Len(pl.segs) |-> SegInt(c, pl.segs[k])]))

\* ---------------------------------------------------------------- outcomes
Val(x) == [k |-> "value", t |-> x]
WarnVal(x) == [k |-> "warn+value", t |-> x]
ErrOut(cls) == [k |-> "error", cls |-> cls]
\* "range": outside the valid range (the package signals it with
\* OutsideCorrelationError, or IncompleteDataError through a partial correlation)
\* "incomplete": the datum needed is absent

\* which of the outcome classes applies (shared by the exact and the general form)
\*   "incomplete" | "range" | "ref" (no Cp data: the reference value, with the
\*   warning unless t = T_ref) | "ok"
Guard(c, prop, t) ==
  CASE prop = "Cp" -> IF ~HasCp(c) THEN "incomplete" ELSE IF ~InRange(c, t) THEN "range" ELSE "ok"
    [] prop = "H" -> IF c.h = <<>> THEN "incomplete" ELSE IF ~HasCp(c) THEN "ref"
                     ELSE IF ~InRange(c, t) THEN "range" ELSE "ok"
    [] prop = "S" -> IF c.s = <<>> THEN "incomplete" ELSE IF ~HasCp(c) THEN "ref"
                     ELSE IF ~InRange(c, t) THEN "range" ELSE "ok"
RefOut(c, x, t) == IF t = c.tref THEN Val(TRat(x)) ELSE WarnVal(TRat(x))

EvalCp(c, t) == LET g == Guard(c, "Cp", t) IN
                IF g = "ok" THEN Val(TRat(CpStar(c, t))) ELSE ErrOut(g)
EvalH(c, t) == LET g == Guard(c, "H", t) IN
               IF g = "ok" THEN Val(HTerm(c, t)) ELSE IF g = "ref" THEN RefOut(c, c.h[1], t) ELSE ErrOut(g)
EvalS(c, t) == LET g == Guard(c, "S", t) IN
               IF g = "ok" THEN Val(STerm(c, t)) ELSE IF g = "ref" THEN RefOut(c, c.s[1], t) ELSE ErrOut(g)
EvalG(c, t) == LET hh == EvalH(c, t) ss == EvalS(c, t) IN
               IF hh.k = "error" THEN hh ELSE IF ss.k = "error" THEN ss
               ELSE [k |-> IF hh.k = "warn+value" \/ ss.k = "warn+value" THEN "warn+value" ELSE "value",
                     t |-> TSub(hh.t, ss.t)]
Eval(c, prop, t) == CASE prop = "Cp" -> EvalCp(c, t) [] prop = "H" -> EvalH(c, t)
                      [] prop = "S" -> EvalS(c, t) [] prop = "G" -> EvalG(c, t)

\* General tables (no closed form; temperatures may be ranks): the outcome class and,
\* for values, *how* the value is determined by the data:
\*   Cp: the table entry (at a knot / outside the span) or "interpolated"
\*   H : t*H = T_ref*H_ref + plan(T_ref -> t) over Cp*      S : S_ref + plan over Cp*/t
\*   G : H - S
KnotIdx(c, t) == IF RLe(t, TMin(c)) THEN 1 ELSE IF RLe(TMax(c), t) THEN Len(c.ts)
                 ELSE IF \E k \in 1..Len(c.ts) : c.ts[k] = t THEN CHOOSE k \in 1..Len(c.ts) : c.ts[k] = t
                 ELSE 0
How(c, prop, t) ==
  IF prop = "G" THEN
     LET gh == Guard(c, "H", t) gs == Guard(c, "S", t) IN
     IF gh \in {"incomplete", "range"} THEN [k |-> "error", cls |-> gh]
     ELSE IF gs \in {"incomplete", "range"} THEN [k |-> "error", cls |-> gs]
     ELSE [k |-> IF gh = "ref" /\ t # c.tref THEN "warn+value" ELSE "value", how |-> "H-S"]
  ELSE LET g == Guard(c, prop, t) IN
     IF g \in {"incomplete", "range"} THEN [k |-> "error", cls |-> g]
     ELSE IF g = "ref" THEN [k |-> IF t = c.tref THEN "value" ELSE "warn+value", how |-> "ref"]
     ELSE IF prop = "Cp" THEN [k |-> "value", how |-> "table", idx |-> KnotIdx(c, t)]
     ELSE [k |-> "value", how |-> "plan", plan |-> Plan(c.tref, t, TMin(c), TMax(c))]

\* ---------------------------------------------------------------- construction
\* from supplied data (any order).  A table must lie inside an explicit range,
\* and the reference temperature inside the (effective) range.
SortedTs(tsSet) == LET RECURSIVE Go(_) 
                       Go(S) == IF S = {} THEN <<>>
                                ELSE LET m == CHOOSE x \in S : \A y \in S : RLe(x, y)
                                     IN <<m>> \o Go(S \ {m})
                   IN Go(tsSet)
Construct(tsSeq, P, tref, h, s, rng) ==
  LET ts == SortedTs({tsSeq[k] : k \in 1..Len(tsSeq)})
      c == [ts |-> ts, P |-> P, tref |-> tref, h |-> h, s |-> s, rng |-> rng]
  IN IF ts # <<>> /\ rng # <<>> /\ (RLt(ts[1], rng[1]) \/ RLt(rng[2], ts[Len(ts)]))
        THEN [ok |-> FALSE, cls |-> "ValueError"]
     ELSE IF ts # <<>> /\ ~InRange(c, tref) THEN [ok |-> FALSE, cls |-> "ValueError"]
     ELSE [ok |-> TRUE, c |-> c]
=============================================================================
