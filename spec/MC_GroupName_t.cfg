CONSTANTS
  MaxChunks = 3
  MaxTotal = 3
  MaxKeys = 1
  MaxCount = 3
  ZeroCounts = FALSE
  NAlpha = 3
INIT MInit
NEXT MNext
CONSTRAINT Bounded
INVARIANT Agree
INVARIANT PlainInterop
PROPERTY ReadOnly
POSTCONDITION Post
CHECK_DEADLOCK FALSE
