CONSTANTS
  NNames = 12
  NPows = 6
  WithMutants = TRUE
INIT Init
NEXT Next
INVARIANT InvOutcome
POSTCONDITION Post
CHECK_DEADLOCK FALSE
