CONSTANTS
  NNames = 6
  NPows = 4
  WithMutants = TRUE
INIT Init
NEXT Next
INVARIANT InvOutcome
POSTCONDITION Post
CHECK_DEADLOCK FALSE
