CONSTANTS
  Handles = {1, 2, 3}
  LibNames = {"~GRWSurface2018", "~BensonGA", "BensonGA", "GRWSurface2018", "SalciccioliGA2012", "GuSolventGA2017Aq", "GuSolventGA2017Vac", "X1", "X2", "X3"}
  Mols = {"none"}
  Props = {"S"}
  Temps = {1}
  Groups = {"g"}
  MaxObjs = 1000
  Faithful = FALSE
SPECIFICATION TSpec
INVARIANT Finish
PROPERTY TraceReadOnly
CHECK_DEADLOCK FALSE
