----------------------------- MODULE Trace_Merge -----------------------------
(* Trace validation for C13.  Two kinds of traces recorded from pgradd:      *)
(*  "corr": init record, then ThermochemIncomplete.update(src, overwrite)    *)
(*          calls; after each the outcome and the projected correlation;     *)
(*  "load": one GroupLibrary.Load of a tree of include files (written to     *)
(*          disk by the harness); outcome and projected library contents.    *)
(*  "lib":  a loaded library, then GroupLibrary.Update(other, overwrite)     *)
(*          calls with other loaded libraries (the same one possibly more    *)
(*          than once); after each the outcome and the projected contents    *)
(*          (a refused merge keeps the groups merged before the conflict).   *)
(* Group spellings are resolved to keys by GroupNameDef (ParseG, Canon).     *)
EXTENDS Merge, GroupNameDef, Json, IOUtils

In == JsonDeserialize(IOEnv.VIN)
Traces == In.traces

VARIABLES vtid, vpos, vskip, vbad, vnev, vlib
tvars == <<macc, merr, vtid, vpos, vskip, vbad, vnev, vlib>>

\* JSON record -> spec record (JSON: h/s arrays of 0..1 ints, cp array of [t, v], rng array)
Rec(j) == [h |-> j.h, s |-> j.s,
           cp |-> [t \in {j.cp[x][1] : x \in 1..Len(j.cp)} |->
                     (CHOOSE x \in 1..Len(j.cp) : j.cp[x][1] = t) ],
           rng |-> j.rng]
RecOf(j) == LET r == Rec(j) IN [r EXCEPT !.cp = [t \in DOMAIN r.cp |-> j.cp[r.cp[t]][2]]]

\* file tree: JSON [groups |-> <<[name, rec]...>>, includes |-> <<tree...>>]
RECURSIVE TreeOf(_)
TreeOf(j) == [groups |-> [x \in 1..Len(j.groups) |->
                            LET g == ParseG(j.groups[x].name) IN
                            [name |-> j.groups[x].name,
                             key |-> Canon(g.csg, g.psgs),
                             rec |-> RecOf(j.groups[x].rec)]],
              includes |-> [x \in 1..Len(j.includes) |-> TreeOf(j.includes[x])]]
LibOut(l) == {<<k, l[k]>> : k \in DOMAIN l}
LoggedLib(j) == {<<j[x].key, RecOf(j[x].rec)>> : x \in 1..Len(j)}

TInit == CorrInit(EmptyRec) /\ vtid = 1 /\ vpos = 1 /\ vskip = FALSE /\ vbad = {} /\ vnev = 0 /\ vlib = <<>>

Advance(ok, info) ==
  IF ok THEN vpos' = vpos + 1 /\ UNCHANGED <<vtid, vskip, vbad>>
  ELSE vbad' = vbad \cup {[tid |-> vtid, i |-> vpos, exp |-> info]} /\ vskip' = TRUE /\ UNCHANGED <<vtid, vpos>>

TStep ==
  /\ vtid <= Len(Traces)
  /\ IF vskip \/ vpos > Len(Traces[vtid]) THEN
        /\ vtid' = vtid + 1 /\ vpos' = 1 /\ vskip' = FALSE
        /\ macc' = EmptyRec /\ merr' = "ok" /\ vlib' = <<>> /\ UNCHANGED <<vbad, vnev>>
     ELSE LET e == Traces[vtid][vpos] IN
        /\ vnev' = vnev + 1
        /\ \/ /\ e.op = "init" /\ macc' = RecOf(e.rec) /\ merr' = "ok" /\ UNCHANGED vlib
              /\ Advance(TRUE, <<>>)
           \/ /\ e.op = "update" /\ CorrUpdate(RecOf(e.src), e.ow) /\ UNCHANGED vlib
              /\ Advance(e.err = merr' /\ RecOf(e.state) = macc', [err |-> merr', rec |-> macc'])
           \/ /\ e.op = "libinit" /\ UNCHANGED <<macc, merr>>
              /\ LET r == LoadTree(TreeOf(e.tree)) IN
                 /\ vlib' = (IF r.ok THEN r.lib ELSE <<>>)
                 /\ Advance(r.ok /\ LoggedLib(e.lib) = LibOut(r.lib), [ok |-> r.ok])
           \/ /\ e.op = "libupdate" /\ UNCHANGED <<macc, merr>>
              /\ LET o == LoadTree(TreeOf(e.tree)) u == LibUpd(vlib, o, e.ow) IN
                 /\ vlib' = u.lib
                 /\ Advance(e.ok = u.ok /\ (u.ok \/ e.err = "ReadOnlyDataError") /\ LoggedLib(e.lib) = LibOut(u.lib),
                            [ok |-> u.ok, lib |-> LibOut(u.lib)])
           \/ /\ e.op = "load" /\ UNCHANGED <<macc, merr, vlib>>
              /\ LET r == LoadTree(TreeOf(e.tree)) IN
                 Advance(IF r.ok THEN e.ok /\ LoggedLib(e.lib) = LibOut(r.lib)
                         ELSE ~e.ok /\ e.err = r.err,
                         IF r.ok THEN [ok |-> TRUE, lib |-> LibOut(r.lib)] ELSE [ok |-> FALSE, err |-> r.err])

TSpec == TInit /\ [][TStep]_tvars
Done == vtid > Len(Traces)
Finish == Done => JsonSerialize(IOEnv.VOUT, [bad |-> SetToSeq(vbad), events |-> vnev,
                                             traces |-> Len(Traces), done |-> TRUE])
\* the trace, too, never shows a rejected merge changing the correlation
TraceAtomic == [][merr' = "ReadOnlyDataError" /\ vpos' = vpos + 1 => macc' = macc]_tvars
=============================================================================
