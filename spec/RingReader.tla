------------------------------ MODULE RingReader ------------------------------
(* C09 / C08 / C16: from the RING syntax tree to a query (fragment) or a rule, *)
(* or the error the reader must raise.  The tree is traversed in document      *)
(* order and the first problem met decides the outcome:                        *)
(*   RINGReaderError      undefined label, unknown element, unknown group,     *)
(*                        impossible bond / stereo declaration, bond edits     *)
(*                        that do not fit the reactant, electron imbalance     *)
(*   NotImplementedError  recognised but unsupported: Boolean operators other  *)
(*                        than '!', rule constraints, atom-type modification   *)
(* Where the documented meaning is silent the outcome is left open ("open").   *)
(* Known deviations of the code are tagged (dev) so that trace validation can  *)
(* tell them from anything else.                                               *)
EXTENDS RingParser, Elements, RingWords

LeafText(node) == StrKids(node)[1].s                 \* the text of a String / literal child
Upper1(t) == IF t[1] >= 97 /\ t[1] <= 122 THEN <<t[1] - 32>> \o Tail(t) ELSE t
IsLower1(t) == t[1] >= 97 /\ t[1] <= 122

\* ------------------------------------------------------------------ atom types
Wild == {T_AnyAtom, T_Dollar, T_Hetero, T_Amp, T_HeavyAtom, T_X}
AtomTypeOf(node) ==
  [prefix |-> IF HasKid(node, "AtomPrefix") THEN LeafText(Kid(node, "AtomPrefix")) ELSE <<>>,
   sym |-> LeafText(Kid(node, "Symbols")),
   suffix |-> IF HasKid(node, "AtomSuffix") THEN LeafText(Kid(node, "AtomSuffix")) ELSE <<>>]
\* "" (fine), an error class, or the tag of a known deviation
AtomTypeProblem(at) ==
  IF at.sym \in Wild \/ at.sym = T_M THEN ""
  ELSE IF IsLower1(at.sym) THEN
       (IF Upper1(at.sym) \notin ElementSet THEN "RINGReaderError"
        ELSE IF at.suffix \in {T_Dot, T_Colon, T_ColonDot, T_Quest, T_Star} THEN "" ELSE "dev:lowercase-symbol")
  ELSE IF at.sym \in ElementSet THEN "" ELSE "RINGReaderError"

\* ------------------------------------------------------------------ constraints
CNOf(node) == [op |-> IF StrKids(node) = <<>> THEN T_Eq ELSE StrKids(node)[1].s, n |-> IntKids(node)[1].i]
DefaultCN == [op |-> T_Ge, n |-> 1]
BoolProblem(node) == IF HasKid(node, "Boolean") /\ LeafText(Kid(node, "Boolean")) # T_Bang
                     THEN "NotImplementedError" ELSE ""
Negated(node) == HasKid(node, "Boolean")
ConstraintOf(cnode) ==    \* cnode = AtomConstraints node
  LET x == cnode.c[1] IN
  CASE x.n = "AtomConstraintConnectivity" ->
         [kind |-> "conn", neg |-> Negated(x),
          cn |-> IF HasKid(x, "ConstraintNumber") THEN CNOf(Kid(x, "ConstraintNumber")) ELSE DefaultCN,
          group |-> HasKid(x, "GroupName"),
          nb |-> IF HasKid(x, "AtomType") THEN AtomTypeOf(Kid(x, "AtomType")) ELSE [prefix |-> <<>>, sym |-> <<>>, suffix |-> <<>>],
          bond |-> IF HasKid(x, "BondType") THEN LeafText(Kid(x, "BondType")) ELSE T_single]
    [] x.n = "AtomConstraintRing" -> [kind |-> "ringsize", neg |-> Negated(x), cn |-> CNOf(Kid(x, "ConstraintNumber"))]
    [] x.n = "AtomConstraintRadical" -> [kind |-> "radical", neg |-> Negated(x), cn |-> CNOf(Kid(x, "ConstraintNumber"))]
    [] x.n = "AtomConstraintNRing" -> [kind |-> "nring", neg |-> Negated(x), cn |-> CNOf(Kid(x, "ConstraintNumber"))]
ConstraintProblem(cnode) ==
  LET x == cnode.c[1] IN
  IF BoolProblem(x) # "" THEN BoolProblem(x)
  ELSE IF x.n = "AtomConstraintConnectivity" THEN
       (IF HasKid(x, "GroupName") THEN "RINGReaderError" ELSE AtomTypeProblem(AtomTypeOf(Kid(x, "AtomType"))))
  ELSE ""
RECURSIVE ChainNodes(_)
ChainNodes(chain) ==      \* AtomConstraintChain -> Seq(AtomConstraints nodes)
  <<Kid(chain, "AtomConstraints")>> \o
  (IF HasKid(chain, "AtomConstraintChain") THEN ChainNodes(Kid(chain, "AtomConstraintChain")) ELSE <<>>)
ConstraintNodes(node) == IF HasKid(node, "AtomConstraintChain") THEN ChainNodes(Kid(node, "AtomConstraintChain")) ELSE <<>>
FirstProblem(ps) == LET bad == SelectSeq(ps, LAMBDA p : p # "") IN IF bad = <<>> THEN "" ELSE bad[1]

\* ------------------------------------------------------------------ fragments
EmptyQ == [labels |-> <<>>, atoms |-> <<>>, bonds |-> <<>>, stereo |-> <<>>, err |-> "", prefix |-> <<>>, name |-> <<>>]
IndexOfLabel(labels, l) == IF \E k \in 1..Len(labels) : labels[k] = l
                           THEN CHOOSE k \in 1..Len(labels) : labels[k] = l /\ \A j \in 1..(k - 1) : labels[j] # l
                           ELSE 0
Bonded(q, a, b) == \E k \in 1..Len(q.bonds) : {q.bonds[k].a, q.bonds[k].b} = {a, b}
BondKind(q, a, b) == q.bonds[CHOOSE k \in 1..Len(q.bonds) : {q.bonds[k].a, q.bonds[k].b} = {a, b}].kind
Fail(q, e) == [q EXCEPT !.err = e]

AddAtomTyped(q, node) ==     \* node has AtomType, AtomLabel, optional constraint chain
  LET at == AtomTypeOf(Kid(node, "AtomType")) p == AtomTypeProblem(at) IN
  IF p # "" THEN Fail(q, p)
  ELSE [q EXCEPT !.atoms = Append(q.atoms, [type |-> at, cons |-> <<>>])]
AddConstraints(q, node, idx) ==
  LET cs == ConstraintNodes(node)
      p == FirstProblem([k \in 1..Len(cs) |-> ConstraintProblem(cs[k])]) IN
  IF p # "" THEN Fail(q, p)
  ELSE [q EXCEPT !.atoms[idx].cons = [k \in 1..Len(cs) |-> ConstraintOf(cs[k])]]
AddBond(q, a, b, kind) ==
  IF a = b \/ Bonded(q, a, b) THEN Fail(q, "RINGReaderError")
  ELSE [q EXCEPT !.bonds = Append(q.bonds, [a |-> a, b |-> b, kind |-> kind])]

ReadAtom(q, node) ==
  LET q1 == AddAtomTyped(q, node) IN
  IF q1.err # "" THEN q1
  ELSE LET q2 == [q1 EXCEPT !.labels = Append(q1.labels, LeafText(Kid(node, "AtomLabel")))] IN
       AddConstraints(q2, node, Len(q2.atoms))
ReadBondedAtom(q, node) ==
  LET labs == Kids(node, "AtomLabel")
      own == LeafText(labs[1]) partner == LeafText(labs[2])
      q1 == AddAtomTyped(q, node) IN
  IF q1.err # "" THEN q1
  ELSE IF \E k \in 1..Len(q.labels) : q.labels[k] = T_AtomLabel THEN Fail(q1, "dev:label-AtomLabel")
  ELSE LET q2 == [q1 EXCEPT !.labels = Append(q1.labels, own)]
           me == Len(q2.atoms)
           other == IndexOfLabel(q2.labels, partner) IN
       IF other = 0 THEN Fail(q2, "RINGReaderError")
       ELSE LET q3 == AddBond(q2, me, other, LeafText(Kid(node, "BondType"))) IN
            IF q3.err # "" THEN q3 ELSE AddConstraints(q3, node, me)
ReadRingBond(q, node) ==
  LET labs == Kids(node, "AtomLabel")
      a == IndexOfLabel(q.labels, LeafText(labs[1])) b == IndexOfLabel(q.labels, LeafText(labs[2])) IN
  IF a = 0 \/ b = 0 THEN Fail(q, "RINGReaderError")
  ELSE AddBond(q, a, b, LeafText(Kid(node, "BondType")))
ReadStereo(q, node) ==
  LET labs == Kids(node, "AtomLabel")
      i1 == IndexOfLabel(q.labels, LeafText(labs[1])) IN
  IF i1 = 0 THEN Fail(q, "RINGReaderError")
  ELSE IF BoolProblem(node) # "" THEN Fail(q, "NotImplementedError")
  ELSE LET i2 == IndexOfLabel(q.labels, LeafText(labs[2]))
           i3 == IndexOfLabel(q.labels, LeafText(labs[3]))
           i4 == IndexOfLabel(q.labels, LeafText(labs[4])) IN
       IF i2 = 0 \/ i3 = 0 \/ i4 = 0 THEN Fail(q, "RINGReaderError")
       ELSE IF ~Bonded(q, i3, i4) THEN Fail(q, "RINGReaderError")
       ELSE IF BondKind(q, i3, i4) # T_double THEN Fail(q, "RINGReaderError")
       ELSE LET b13 == Bonded(q, i1, i3) b14 == Bonded(q, i1, i4)
                b23 == Bonded(q, i2, i3) b24 == Bonded(q, i2, i4) IN
            IF (b13 /\ b23) \/ (b14 /\ b24) \/ (~b13 /\ ~b14) \/ (~b23 /\ ~b24) THEN Fail(q, "RINGReaderError")
            ELSE [q EXCEPT !.stereo = Append(q.stereo,
                    [a |-> i1, b |-> i2, c |-> i3, d |-> i4, neg |-> Negated(node),
                     kind |-> LeafText(Kid(node, "DoubleBondStereoType"))])]

RECURSIVE ReadChain(_, _)
ReadChain(q, chain) ==
  IF q.err # "" THEN q
  ELSE LET x == chain.c[1]
           q1 == CASE x.n = "BondedAtom" -> ReadBondedAtom(q, x)
                   [] x.n = "RingBond" -> ReadRingBond(q, x)
                   [] x.n = "StereoDoubleBond" -> ReadStereo(q, x) IN
       IF q1.err = "" /\ HasKid(chain, "AtomChain") THEN ReadChain(q1, Kid(chain, "AtomChain")) ELSE q1
\* node = Fragment or ReactantQuery (Prefix, name, MolQuery)
ReadQuery(node, nameRule) ==
  LET mq == Kid(node, "MolQuery")
      q0 == [EmptyQ EXCEPT !.prefix = [k \in 1..Len(StrKids(Kid(node, "Prefix"))) |-> StrKids(Kid(node, "Prefix"))[k].s],
                           !.name = LeafText(Kid(node, nameRule))]
      q1 == ReadAtom(q0, Kid(mq, "Atom")) IN
  IF q1.err = "" /\ HasKid(mq, "AtomChain") THEN ReadChain(q1, Kid(mq, "AtomChain")) ELSE q1

\* ------------------------------------------------------------------ rules
\* electron balance is kept doubled (an aromatic bond counts 3 halves)
EditBondBalance2(kind) == CASE kind = T_single -> 2 [] kind = T_double -> 4 [] kind = T_triple -> 6
                            [] kind = T_quadruple -> 8 [] kind = T_aromatic -> 3 [] kind = T_partial -> 0
                            [] OTHER -> 0 - 1          \* ring / nonring / any / strong: not a bond type an edit can name
EmptyR == [reactants |-> <<>>, labels |-> <<>>, owner |-> <<>>, local |-> <<>>, bal |-> <<>>, edits |-> <<>>, err |-> ""]
RFail(r, e) == [r EXCEPT !.err = e]
RECURSIVE ReadReactants(_, _)
ReadReactants(r, node) ==      \* node = Reactants
  IF r.err # "" THEN r
  ELSE LET x == node.c[1] IN
    IF x.n # "ReactantQuery" THEN RFail(r, "dev:reactant-group")
    ELSE LET q == ReadQuery(x, "ReactantName") IN
      IF q.err # "" THEN RFail(r, q.err)
      ELSE LET k == Len(r.reactants) + 1
               r1 == [r EXCEPT !.reactants = Append(r.reactants, q),
                               !.labels = r.labels \o q.labels,
                               !.owner = r.owner \o [j \in 1..Len(q.labels) |-> k],
                               !.local = r.local \o [j \in 1..Len(q.labels) |-> j],
                               !.bal = r.bal \o [j \in 1..Len(q.labels) |-> 0]] IN
           IF HasKid(node, "Reactants") THEN ReadReactants(r1, Kid(node, "Reactants")) ELSE r1
Lab(r, l) == IndexOfLabel(r.labels, l)
\* the label must also be found inside its reactant (first occurrence there)
LocalIdx(r, g) == IndexOfLabel(r.reactants[r.owner[g]].labels, r.labels[g])
Bump(r, g, d) == [r EXCEPT !.bal[g] = r.bal[g] + d]
AddEdit(r, e) == [r EXCEPT !.edits = Append(r.edits, e)]
ReadEdit(r, ch) ==             \* ch = ConnectivityChange node
  LET x == ch.c[1]
      labs == Kids(x, "AtomLabel")
      g1 == Lab(r, LeafText(labs[1]))
      g2 == IF Len(labs) > 1 THEN Lab(r, LeafText(labs[2])) ELSE 0
      kindGiven == HasKid(x, "BondType")
      kind == IF kindGiven THEN LeafText(Kid(x, "BondType")) ELSE T_single IN
  CASE x.n = "BondForm" ->
         IF kindGiven /\ EditBondBalance2(kind) < 0 THEN RFail(r, "RINGReaderError")
         ELSE IF g1 = 0 \/ g2 = 0 THEN RFail(r, "RINGReaderError")
         ELSE AddEdit(Bump(Bump(r, g1, 0 - EditBondBalance2(kind)), g2, 0 - EditBondBalance2(kind)),
                      [op |-> "form", a |-> g1, b |-> g2, kind |-> kind])
    [] x.n = "BondBreak" ->
         IF kindGiven /\ EditBondBalance2(kind) < 0 THEN RFail(r, "RINGReaderError")
         ELSE IF g1 = 0 \/ g2 = 0 THEN RFail(r, "RINGReaderError")
         ELSE IF r.owner[g1] # r.owner[g2] THEN RFail(r, "RINGReaderError")
         ELSE LET q == r.reactants[r.owner[g1]] a == LocalIdx(r, g1) b == LocalIdx(r, g2) IN
              IF ~Bonded(q, a, b) THEN RFail(r, "RINGReaderError")
              ELSE IF BondKind(q, a, b) # kind THEN RFail(r, "RINGReaderError")
              ELSE AddEdit(Bump(Bump(r, g1, EditBondBalance2(kind)), g2, EditBondBalance2(kind)),
                           [op |-> "break", a |-> g1, b |-> g2, kind |-> kind])
    [] x.n = "BondModify" ->
         IF g1 = 0 \/ g2 = 0 THEN RFail(r, "RINGReaderError")
         ELSE IF r.owner[g1] # r.owner[g2] THEN RFail(r, "RINGReaderError")
         ELSE LET q == r.reactants[r.owner[g1]] a == LocalIdx(r, g1) b == LocalIdx(r, g2) IN
              IF ~Bonded(q, a, b) THEN RFail(r, "RINGReaderError")
              ELSE IF EditBondBalance2(BondKind(q, a, b)) < 0 \/ BondKind(q, a, b) = T_partial THEN RFail(r, "RINGReaderError")
              ELSE IF EditBondBalance2(kind) < 0 THEN RFail(r, "RINGReaderError")
              ELSE LET d == EditBondBalance2(BondKind(q, a, b)) - EditBondBalance2(kind) IN
                   AddEdit(Bump(Bump(r, g1, d), g2, d), [op |-> "modify", a |-> g1, b |-> g2, kind |-> kind])
    [] x.n = "BondIncrease" ->
         IF g1 = 0 \/ g2 = 0 THEN RFail(r, "RINGReaderError")
         ELSE AddEdit(Bump(Bump(r, g1, 0 - 2), g2, 0 - 2), [op |-> "increase", a |-> g1, b |-> g2, kind |-> <<>>])
    [] x.n = "BondDecrease" ->
         IF g1 = 0 \/ g2 = 0 THEN RFail(r, "RINGReaderError")
         ELSE AddEdit(Bump(Bump(r, g1, 2), g2, 2), [op |-> "decrease", a |-> g1, b |-> g2, kind |-> <<>>])
    [] x.n = "AtomTypeModify" -> IF g1 = 0 THEN RFail(r, "RINGReaderError") ELSE RFail(r, "open:atomtype-modify")
    [] x.n = "RadicalModify" ->
         IF g1 = 0 THEN RFail(r, "RINGReaderError")
         ELSE AddEdit(Bump(r, g1, 0 - 2 * IntKids(x)[1].i), [op |-> "radset", a |-> g1, b |-> IntKids(x)[1].i, kind |-> <<>>])
    [] x.n = "RadicalIncrease" -> IF g1 = 0 THEN RFail(r, "RINGReaderError")
         ELSE AddEdit(Bump(r, g1, 0 - 2), [op |-> "radinc", a |-> g1, b |-> 0, kind |-> <<>>])
    [] x.n = "RadicalDecrease" -> IF g1 = 0 THEN RFail(r, "RINGReaderError")
         ELSE AddEdit(Bump(r, g1, 2), [op |-> "raddec", a |-> g1, b |-> 0, kind |-> <<>>])
    [] x.n = "ChargeIncrease" -> IF g1 = 0 THEN RFail(r, "RINGReaderError")
         ELSE AddEdit(Bump(r, g1, 0 - 2), [op |-> "chginc", a |-> g1, b |-> 0, kind |-> <<>>])
    [] x.n = "ChargeDecrease" -> IF g1 = 0 THEN RFail(r, "RINGReaderError")
         ELSE AddEdit(Bump(r, g1, 2), [op |-> "chgdec", a |-> g1, b |-> 0, kind |-> <<>>])
RECURSIVE ReadEdits(_, _)
ReadEdits(r, chain) ==
  IF r.err # "" THEN r
  ELSE LET r1 == ReadEdit(r, Kid(chain, "ConnectivityChange")) IN
       IF r1.err = "" /\ HasKid(chain, "TransformationChain") THEN ReadEdits(r1, Kid(chain, "TransformationChain")) ELSE r1
Balanced(r) == \A k \in 1..Len(r.bal) : r.bal[k] = 0
ReadRule(node) ==
  LET r1 == ReadReactants(EmptyR, Kid(node, "Reactants")) IN
  IF r1.err # "" THEN r1
  ELSE IF HasKid(node, "Constraints") THEN RFail(r1, "NotImplementedError")
  ELSE LET r2 == ReadEdits(r1, Kid(node, "TransformationChain")) IN
       IF r2.err # "" THEN r2 ELSE IF ~Balanced(r2) THEN RFail(r2, "RINGReaderError") ELSE r2

\* ------------------------------------------------------------------ whole texts
\* outcome class of reading a text, and the set of classes the statement allows
DevTags == {"dev:lowercase-symbol", "dev:label-AtomLabel", "dev:reactant-group"}
Classes == {"MolQuery", "ReactionQuery", "RINGSyntaxError", "RINGReaderError", "NotImplementedError"}
ReadOutcome(txt) ==
  LET p == ParseRing(txt) IN
  IF ~p.ok THEN [cls |-> "RINGSyntaxError", allowed |-> {"RINGSyntaxError"}, dev |-> "", far |-> p.far]
  ELSE LET top == p.ast.c[1] IN
    IF top.n = "Fragment" THEN
       LET q == ReadQuery(top, "FragmentName") IN
       IF q.err = "" THEN [cls |-> "MolQuery", allowed |-> {"MolQuery"}, dev |-> "", far |-> 0]
       ELSE IF q.err \in DevTags THEN [cls |-> "MolQuery", allowed |-> {"MolQuery", "RINGReaderError"}, dev |-> q.err, far |-> 0]
       ELSE [cls |-> q.err, allowed |-> {q.err}, dev |-> "", far |-> 0]
    ELSE
       LET r == ReadRule(top) IN
       IF r.err = "" THEN [cls |-> "ReactionQuery", allowed |-> {"ReactionQuery"}, dev |-> "", far |-> 0]
       ELSE IF r.err = "open:atomtype-modify" THEN
            [cls |-> "NotImplementedError", allowed |-> {"NotImplementedError", "RINGReaderError", "ReactionQuery"}, dev |-> "", far |-> 0]
       ELSE IF r.err \in DevTags THEN
            [cls |-> "ReactionQuery", allowed |-> {"ReactionQuery", "RINGReaderError", "NotImplementedError"}, dev |-> r.err, far |-> 0]
       ELSE [cls |-> r.err, allowed |-> {r.err}, dev |-> "", far |-> 0]
=============================================================================
