INIT Init
NEXT Next
INVARIANT Sane
POSTCONDITION Post
CHECK_DEADLOCK FALSE
