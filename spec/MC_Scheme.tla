------------------------------ MODULE MC_Scheme ------------------------------
(* C02 / C03 / C04: schemes x molecules.  The harness reads the scheme files     *)
(* independently (yaml.safe_load) and exports each molecule as the graph the    *)
(* code works on before its own aromatisation step (Kekule form, explicit       *)
(* hydrogens, ring list in the toolkit's order).  TLC compiles every pattern    *)
(* text with the TLA+ RING reader and computes the decomposition.  Sharded.     *)
EXTENDS Scheme, Json, IOUtils, TLC

In == JsonDeserialize(IOEnv.VIN)
Shard == atoi(IOEnv.SHARD)
NShard == atoi(IOEnv.NSHARD)
Pairs == In.pairs                                  \* <<scheme index, molecule index>>
MyIdx == TLCEval({j \in 1..Len(Pairs) : j % NShard = Shard})
MySchemes == TLCEval({Pairs[j][1] : j \in MyIdx})
Compile(text) == LET p == ParseRing(text) IN ReadQuery(p.ast.c[1], "FragmentName")
SchemeTab == TLCEval([s \in MySchemes |->
  LET raw == In.schemes[s] IN
  [patterns |-> [k \in 1..Len(raw.patterns) |-> [center |-> raw.patterns[k].center, periph |-> raw.patterns[k].periph,
                                                  q |-> Compile(raw.patterns[k].text)]],
   others |-> [k \in 1..Len(raw.others) |-> [name |-> raw.others[k].name, q |-> Compile(raw.others[k].text)]],
   remaps |-> raw.remaps]])
\* every pattern of every scheme used compiles without reader error
ASSUME PatternsReadable == \A s \in MySchemes :
  /\ \A k \in 1..Len(SchemeTab[s].patterns) : SchemeTab[s].patterns[k].q.err = ""
  /\ \A k \in 1..Len(SchemeTab[s].others) : SchemeTab[s].others[k].q.err = ""
ResTab == TLCEval([j \in MyIdx |-> Decompose(SchemeTab[Pairs[j][1]], In.mols[Pairs[j][2]])])

VARIABLES vcase, vres
Init == vcase = 0 /\ vres = [ok |-> FALSE, cls |-> "none"]
Next == vcase = 0 /\ \E j \in MyIdx : vcase' = j /\ vres' = ResTab[j]
\* before remapping every atom with a named centre is one group: after it the total is preserved
\* up to the remap coefficients - checked as: every count is non-negative and the bag is non-empty
\* counts are non-negative whenever the scheme's remap coefficients are (a negative coefficient is a legitimate linear substitution)
NonNegScheme(s) == \A k \in 1..Len(In.schemes[s].remaps) :
                     \A r \in 1..Len(In.schemes[s].remaps[k].rules) : In.schemes[s].remaps[k].rules[r][1] >= 0
Sane == (vcase # 0 /\ vres.ok /\ NonNegScheme(Pairs[vcase][1])) => \A x \in DOMAIN vres.bag : RLe(RZero, vres.bag[x])
Export == JsonSerialize(IOEnv.VOUT,
  [res |-> [j \in MyIdx |->
     IF ResTab[j].ok THEN [ok |-> TRUE, bag |-> {<<x, ResTab[j].bag[x]>> : x \in DOMAIN ResTab[j].bag},
                           centres |-> ResTab[j].centres,
                           arom |-> {a \in 1..Len(ResTab[j].mol.atoms) : ResTab[j].mol.atoms[a].arom}]
     ELSE [ok |-> FALSE, cls |-> ResTab[j].cls, atoms |-> ResTab[j].atoms,
           arom |-> {a \in 1..Len(ResTab[j].mol.atoms) : ResTab[j].mol.atoms[a].arom}]]])
Post == TLCGet("stats").diameter > 0 /\ Export
=============================================================================
