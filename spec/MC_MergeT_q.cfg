CONSTANTS
  Deep = FALSE
  Stride = 10
INIT Init
NEXT Next
INVARIANT OutcomeKinds
POSTCONDITION Post
CHECK_DEADLOCK FALSE
