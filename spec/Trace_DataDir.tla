---------------------------- MODULE Trace_DataDir ----------------------------
(* Trace validation for the locating part of C14: each run is one fresh       *)
(* process started with a given value of pgradd_DATA_DIR that changes the     *)
(* variable and loads libraries by name and by path; the directory every load *)
(* was served from is observed through a marker group.  Every event is taken  *)
(* through the action of DataDir.tla; two verdicts per event:                 *)
(*   faithful - the observation is the one the faithful machine produces      *)
(*   allowed  - the observation is one the statement of C14 allows            *)
(* Only "allowed = FALSE" is a violation of the property; a faithful mismatch *)
(* that the statement allows (e.g. a design without the cache) is reported    *)
(* as information.                                                            *)
EXTENDS DataDir, Json, IOUtils

In == JsonDeserialize(IOEnv.VIN)
Runs == In.runs
VARIABLES vrun, vpos, vres
tvars == <<venv, vstart, vused, vtouched, vcache, vobs, vrun, vpos, vres>>

Start(k) == /\ venv = Runs[k].start /\ vstart = Runs[k].start /\ vused = FALSE /\ vtouched = FALSE /\ vcache = NoCache
            /\ vobs = [k |-> "init"]
TInit == vrun = 1 /\ vpos = 1 /\ vres = <<>> /\ Start(1)

Act(e) == \/ e.op = "setenv" /\ SetEnv(e.v)
          \/ e.op = "name" /\ LoadName(e.n)
          \/ e.op = "path" /\ LoadPath(e.d, e.n)
TStep ==
  /\ vrun <= Len(Runs)
  /\ IF vpos > Len(Runs[vrun].events) THEN
        /\ vrun' = vrun + 1 /\ vpos' = 1 /\ UNCHANGED vres
        /\ IF vrun + 1 <= Len(Runs)
           THEN /\ venv' = Runs[vrun + 1].start /\ vstart' = Runs[vrun + 1].start /\ vused' = FALSE /\ vtouched' = FALSE
                /\ vcache' = NoCache /\ vobs' = [k |-> "init"]
           ELSE UNCHANGED <<venv, vstart, vused, vtouched, vcache, vobs>>
     ELSE LET e == Runs[vrun].events[vpos] IN
          /\ Act(e)
          /\ vpos' = vpos + 1 /\ vrun' = vrun
          /\ vres' = Append(vres, [run |-> vrun, pos |-> vpos,
                                   faithful |-> (e.op = "setenv" \/ vobs' = e.obs),
                                   allowed |-> (e.op = "setenv" \/ Allows(e.obs, vtouched', vstart')),
                                   expect |-> vobs'])
TSpec == TInit /\ [][TStep]_tvars
Done == vrun > Len(Runs)
\* the process state evolves as DataDir.tla says also along real runs
TraceCacheStable == [][vrun' = vrun /\ vcache # NoCache => vcache' = vcache]_tvars
Finish == Done => JsonSerialize(IOEnv.VOUT, [res |-> vres, done |-> TRUE])
=============================================================================
