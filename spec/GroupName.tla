----------------------------- MODULE GroupName -----------------------------
(* C19: identity of a group = centre name + multiset of peripheral names.  *)
(* Hand transcription of the documented meaning of group names (docstring  *)
(* of Group.parse and Group.__init__), not of the code:                    *)
(*   name ::= centre { '(' peripheral ')' [count] }                        *)
(* The canonical name lists the distinct peripherals in code-point order,  *)
(* each followed by its count when the count is not one.                   *)
(*                                                                         *)
(* State machine: a dictionary keyed by groups (what GroupLibrary.contents *)
(* is) driven by Insert / Lookup / Compare with arbitrary spellings.       *)
EXTENDS Text, TLC

\* ---------------------------------------------------------------- meaning
GroupErr == [ok |-> FALSE, err |-> "GroupSyntaxError"]

\* Fold over the parts after the centre, with the pending peripheral `nxt`
\* (<<>> = none).  A number applies to the pending peripheral; a number with
\* nothing pending is the documented syntax error.
RECURSIVE ParseParts(_, _, _)
ParseParts(parts, nxt, acc) ==
  IF parts = <<>> THEN
     [ok |-> TRUE, psgs |-> IF nxt = <<>> THEN acc ELSE Append(acc, nxt)]
  ELSE LET p == Head(parts) rest == Tail(parts) IN
     IF p = <<>> THEN ParseParts(rest, nxt, acc)
     ELSE IF AllDigits(p) THEN
        IF nxt = <<>> THEN GroupErr
        ELSE ParseParts(rest, <<>>,
                        acc \o [i \in 1..DecValue(p) |-> nxt])
     ELSE ParseParts(rest, p, IF nxt = <<>> THEN acc ELSE Append(acc, nxt))

ParseG(text) ==
  LET parts == SplitAt(text, {LPAREN, RPAREN})
      r == ParseParts(Tail(parts), <<>>, <<>>)
  IN IF r.ok THEN [ok |-> TRUE, csg |-> Head(parts), psgs |-> r.psgs] ELSE r

RECURSIVE CanonParts(_, _)
CanonParts(names, bag) ==
  IF names = <<>> THEN <<>>
  ELSE LET n == Head(names) IN
       (<<LPAREN>> \o n \o <<RPAREN>>
        \o (IF bag[n] = 1 THEN <<>> ELSE DecText(bag[n])))
       \o CanonParts(Tail(names), bag)

Canon(csg, psgs) ==
  LET bag == BagOf(psgs) IN csg \o CanonParts(SortTexts(DOMAIN bag), bag)

SameGroup(g, h) == g.csg = h.csg /\ BagOf(g.psgs) = BagOf(h.psgs)

\* ---------------------------------------------------------- state machine
\* A "ref" names a group the way client code can: by spelling to be parsed,
\* by constructor arguments, or as a plain string (never parsed: a plain
\* string denotes the group whose canonical name it is, if any).
RefGroup(ref) ==
  IF ref.kind = "parse" THEN ParseG(ref.text)
  ELSE IF ref.kind = "ctor" THEN [ok |-> TRUE, csg |-> ref.csg, psgs |-> ref.psgs]
  ELSE [ok |-> TRUE, plain |-> ref.text]

\* dictionary key denoted by a ref (canonical name; plain strings as given)
RefKey(g) == IF "plain" \in DOMAIN g THEN g.plain ELSE Canon(g.csg, g.psgs)

\* Resolution of a ref: the dictionary key it denotes, or the syntax error.
\* (Separate from the actions so that exhaustive configurations can tabulate it.)
Resolve(ref) == LET g == RefGroup(ref) IN
  IF g.ok THEN [ok |-> TRUE, key |-> RefKey(g)] ELSE g

VARIABLES table,    \* function: canonical name -> stored value
          out       \* outcome of the last operation (observable result)
gvars == <<table, out>>

GInit == table = <<>> /\ out = [kind |-> "init"]

Has(k) == k \in DOMAIN table

\* the actions take resolved refs (r = Resolve(ref))
Insert(r, v) ==
  IF ~r.ok THEN out' = [kind |-> "error", cls |-> r.err] /\ UNCHANGED table
  ELSE /\ table' = [x \in DOMAIN table \cup {r.key} |-> IF x = r.key THEN v ELSE table[x]]
       /\ out' = [kind |-> "ok"]

Lookup(r) ==
  /\ UNCHANGED table
  /\ IF ~r.ok THEN out' = [kind |-> "error", cls |-> r.err]
     ELSE out' = IF Has(r.key) THEN [kind |-> "hit", v |-> table[r.key]]
                 ELSE [kind |-> "miss"]

\* equality, inequality and hash agreement of two refs
Compare(r1, r2) ==
  /\ UNCHANGED table
  /\ IF ~r1.ok \/ ~r2.ok THEN out' = [kind |-> "error", cls |-> "GroupSyntaxError"]
     ELSE LET e == r1.key = r2.key IN
          out' = [kind |-> "cmp", eq |-> e, ne |-> ~e]
=============================================================================
