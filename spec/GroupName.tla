----------------------------- MODULE GroupName -----------------------------
(* C19: identity of a group = centre name + multiset of peripheral names.  *)
(* State machine: a dictionary keyed by groups (what GroupLibrary.contents *)
(* is) driven by Insert / Lookup / Compare with arbitrary spellings; the   *)
(* meaning of names (ParseG, Canon) is in GroupNameDef.tla.                *)
EXTENDS GroupNameDef

\* ---------------------------------------------------------- state machine
\* A "ref" names a group the way client code can: by spelling to be parsed,
\* by constructor arguments, or as a plain string (never parsed: a plain
\* string denotes the group whose canonical name it is, if any).
RefGroup(ref) ==
  IF ref.kind = "parse" THEN ParseG(ref.text)
  ELSE IF ref.kind = "ctor" THEN [ok |-> TRUE, csg |-> ref.csg, psgs |-> ref.psgs]
  ELSE [ok |-> TRUE, plain |-> ref.text]

\* dictionary key denoted by a ref (canonical name; plain strings as given)
RefKey(g) == IF "plain" \in DOMAIN g THEN g.plain ELSE Canon(g.csg, g.psgs)

\* Resolution of a ref: the dictionary key it denotes, or the syntax error.
\* (Separate from the actions so that exhaustive configurations can tabulate it.)
Resolve(ref) == LET g == RefGroup(ref) IN
  IF g.ok THEN [ok |-> TRUE, key |-> RefKey(g)] ELSE g

VARIABLES table,    \* function: canonical name -> stored value
          out       \* outcome of the last operation (observable result)
gvars == <<table, out>>

GInit == table = <<>> /\ out = [kind |-> "init"]

Has(k) == k \in DOMAIN table

\* the actions take resolved refs (r = Resolve(ref))
Insert(r, v) ==
  IF ~r.ok THEN out' = [kind |-> "error", cls |-> r.err] /\ UNCHANGED table
  ELSE /\ table' = [x \in DOMAIN table \cup {r.key} |-> IF x = r.key THEN v ELSE table[x]]
       /\ out' = [kind |-> "ok"]

Lookup(r) ==
  /\ UNCHANGED table
  /\ IF ~r.ok THEN out' = [kind |-> "error", cls |-> r.err]
     ELSE out' = IF Has(r.key) THEN [kind |-> "hit", v |-> table[r.key]]
                 ELSE [kind |-> "miss"]

\* equality, inequality and hash agreement of two refs
Compare(r1, r2) ==
  /\ UNCHANGED table
  /\ IF ~r1.ok \/ ~r2.ok THEN out' = [kind |-> "error", cls |-> "GroupSyntaxError"]
     ELSE LET e == r1.key = r2.key IN
          out' = [kind |-> "cmp", eq |-> e, ne |-> ~e]
=============================================================================
