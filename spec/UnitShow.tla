------------------------------ MODULE UnitShow ------------------------------
(* Beyond the listed properties (grown from C10): the *display* of the      *)
(* seven base-dimension exponents as a unit expression, FundamentalUnits.   *)
(* __str__, which the package uses in str(quantity) and in the message of   *)
(* the units error.  Two renderings are specified:                          *)
(*   Show(d)      the rendering a reader expects: factors with positive     *)
(*                exponents before the bar, the others after it with the    *)
(*                exponent's absolute value  (J -> m^2*kg/s^2);             *)
(*   ShowImpl(d)  what the pinned code writes: the factors after the bar    *)
(*                keep their negative exponent  (J -> m^2*kg/s^(-2)), a     *)
(*                named deviation.                                          *)
(* Theorems checked by TLC over the universe below, with the expression     *)
(* language of Units.tla as the meaning of a text:                          *)
(*   RoundTrip      EvalText(Show(d)) is the unit quantity of dimension d;  *)
(*   ImplRoundTrip  EvalText(ShowImpl(d)) is that quantity iff no exponent  *)
(*                  is below zero other than -1 (the deviation is exactly   *)
(*                  a sign flip of those exponents);                        *)
(*   Injective      different dimensions are shown differently.             *)
(* The state machine is a cursor over the universe; the table of texts is   *)
(* exported and the implementation's str() must equal ShowImpl on each.     *)
EXTENDS Units, Json, IOUtils

CONSTANTS ExpNums, MaxActive      \* exponent numerators over 2 (e.g. -4..4 \ {0}), active positions
ExpNumsQ == {0 - 4, 0 - 2, 0 - 1, 1, 2, 4}                      \* -2 -1 -1/2 1/2 1 2
ExpNumsT == {0 - 6, 0 - 4, 0 - 3, 0 - 2, 0 - 1, 1, 2, 3, 4, 6}  \* -3 -2 -3/2 -1 -1/2 1/2 1 3/2 2 3

BaseNames == << <<109>>, <<107,103>>, <<115>>, <<65>>, <<75>>, <<109,111,108>>, <<99,100>> >>
             \* m kg s A K mol cd
ASSUME BaseOrder == \A k \in 1..7 :
  LET v == Lookup(BaseNames[k]) IN
  v.ok /\ v.mag = MagOne /\ v.dim = [j \in 1..7 |-> IF j = k THEN ROne ELSE RZero]

Exps == {RNorm(n, 2) : n \in ExpNums}
Active == {S \in SUBSET (1..7) : Cardinality(S) <= MaxActive}
Universe == TLCEval(UNION {{[k \in 1..7 |-> IF k \in S THEN f[k] ELSE RZero] : f \in [S -> Exps]} : S \in Active})

\* ------------------------------------------------------------ number text
\* Python's str() of an exponent: an integer, or <int>.5 for a half
AbsText(r) == IF r[2] = 1 THEN DecText(AbsI(r[1]))
              ELSE DecText(AbsI(r[1]) \div 2) \o <<DOT, 53>>
NumText(r) == IF r[1] < 0 THEN <<MINUS>> \o AbsText(r) ELSE AbsText(r)

RECURSIVE JoinStar(_)
JoinStar(ss) == IF ss = <<>> THEN <<>> ELSE IF Len(ss) = 1 THEN ss[1]
                ELSE ss[1] \o <<STAR>> \o JoinStar(Tail(ss))

Layout(up, dn) ==
  LET s == IF up = <<>> THEN <<49>> ELSE JoinStar(up) IN
  IF dn = <<>> THEN s
  ELSE IF Len(dn) = 1 THEN s \o <<SLASH>> \o dn[1]
  ELSE s \o <<SLASH, LPAREN>> \o JoinStar(dn) \o <<RPAREN>>

Pos(d) == SelectSeq(<<1, 2, 3, 4, 5, 6, 7>>, LAMBDA k : RLt(RZero, d[k]))
Neg(d) == SelectSeq(<<1, 2, 3, 4, 5, 6, 7>>, LAMBDA k : RLt(d[k], RZero))
UpFactor(d, k) == IF d[k] = ROne THEN BaseNames[k] ELSE BaseNames[k] \o <<CARET>> \o NumText(d[k])
Map(s, Op(_)) == [j \in 1..Len(s) |-> Op(s[j])]

\* the expected rendering
DnFactor(d, k) == IF d[k] = RNeg(ROne) THEN BaseNames[k]
                  ELSE BaseNames[k] \o <<CARET>> \o AbsText(d[k])
Show(d) == Layout(Map(Pos(d), LAMBDA k : UpFactor(d, k)), Map(Neg(d), LAMBDA k : DnFactor(d, k)))

\* the rendering of the pinned code: negative exponent kept, in parentheses
DnFactorImpl(d, k) == IF d[k] = RNeg(ROne) THEN BaseNames[k]
                      ELSE BaseNames[k] \o <<CARET, LPAREN>> \o NumText(d[k]) \o <<RPAREN>>
ShowImpl(d) == Layout(Map(Pos(d), LAMBDA k : UpFactor(d, k)), Map(Neg(d), LAMBDA k : DnFactorImpl(d, k)))

UnitQty(d) == Val(MagOne, d)
\* the dimension the implementation's text really denotes
Flip(d) == [k \in 1..7 |-> IF RLt(d[k], RZero) /\ d[k] # RNeg(ROne) THEN RNeg(d[k]) ELSE d[k]]
DeepNeg(d) == \E k \in 1..7 : RLt(d[k], RZero) /\ d[k] # RNeg(ROne)

\* a text that builds the dimension through the public expression language
Build(d) == LET ks == SelectSeq(<<1, 2, 3, 4, 5, 6, 7>>, LAMBDA k : ~RIsZero(d[k])) IN
  IF ks = <<>> THEN <<49>>
  ELSE ConcatAll(Map(ks, LAMBDA k : BaseNames[k] \o <<CARET, LPAREN>> \o NumText(d[k]) \o <<RPAREN, 32>>))

\* ------------------------------------------------------------ state machine
VARIABLES vdim, vtext
vars == <<vdim, vtext>>
None == <<>>
Init == vdim = None /\ vtext = <<>>
Pick(d) == vdim = None /\ vdim' = d /\ vtext' = Show(d)
Next == \E d \in Universe : Pick(d)
Spec == Init /\ [][Next]_vars

RoundTrip == vdim = None \/ EvalText(vtext) = UnitQty(vdim)
BuildDenotes == vdim = None \/ EvalText(Build(vdim)) = UnitQty(vdim)
ImplRoundTrip == vdim = None \/
  LET v == EvalText(ShowImpl(vdim)) IN
  v = UnitQty(Flip(vdim)) /\ ((v = UnitQty(vdim)) <=> ~DeepNeg(vdim))
SameWhenShallow == vdim = None \/ DeepNeg(vdim) \/ ShowImpl(vdim) = vtext
ASSUME Injective == Cardinality({Show(d) : d \in Universe}) = Cardinality(Universe)
                    /\ Cardinality({ShowImpl(d) : d \in Universe}) = Cardinality(Universe)

Res(t) == LET v == EvalText(t) IN [ok |-> TRUE, mag |-> MagOut(v.mag), dim |-> v.dim]
Export == JsonSerialize(IOEnv.VOUT,
  [rows |-> SetToSeq({[build |-> Build(d), show |-> Show(d), impl |-> ShowImpl(d),
                       deep |-> DeepNeg(d), rshow |-> Res(Show(d)), rimpl |-> Res(ShowImpl(d))] : d \in Universe}),
   total |-> Cardinality(Universe)])
Post == TLCGet("stats").diameter > 0 /\ Export
=============================================================================
