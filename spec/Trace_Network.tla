---------------------------- MODULE Trace_Network ----------------------------
(* Trace validation for C17: the work-list events recorded by hook H2 in      *)
(* GenerateRxnNet (pop / rule / push / skip) and the returned list are        *)
(* consumed by the actions of Network.tla, instantiated with the successor    *)
(* relation the harness computed independently (each rule run on each species *)
(* alone, valence filter applied, species identified by canonical SMILES).    *)
(* The products of one rule application may be considered in any order.       *)
EXTENDS Network, Json, IOUtils, SequencesExt

In == JsonDeserialize(IOEnv.VIN)
Runs == In.runs

VARIABLES vrun, vpos, vbad
tvars == <<vsucc, vunproc, vproc, vcur, vrule, vpend, vrun, vpos, vbad>>

Start(k) == /\ vsucc = Runs[k].succ /\ vunproc = Runs[k].seeds /\ vproc = <<>>
            /\ vcur = 0 /\ vrule = 0 /\ vpend = <<>>
TInit == vrun = 1 /\ vpos = 1 /\ vbad = {} /\ Start(1)

RemoveOne(s, p) == LET k == CHOOSE j \in 1..Len(s) : s[j] = p IN SubSeq(s, 1, k - 1) \o SubSeq(s, k + 1, Len(s))
\* a product considered out of order: same logic as Push / Skip
Consider(p, pushed) ==
  /\ p \in SeqSet(vpend) /\ (pushed <=> ~Known(p))
  /\ vpend' = RemoveOne(vpend, p)
  /\ vunproc' = IF pushed THEN <<p>> \o vunproc ELSE vunproc
  /\ UNCHANGED <<vsucc, vproc, vcur, vrule>>

Enabled(e) ==
  CASE e.ev = "pop" -> vcur # 0 => (vpend = <<>> /\ vrule > Runs[vrun].nrules)
    [] OTHER -> TRUE

\* consume one event; a pop implicitly closes the previous reactant (Done1)
Consume(e) ==
  \/ /\ e.ev = "pop" /\ vpend = <<>> /\ (vcur = 0 \/ vrule > Runs[vrun].nrules)
     /\ vunproc # <<>> /\ Head(vunproc) = e.sp
     /\ vcur' = e.sp /\ vproc' = <<e.sp>> \o vproc /\ vunproc' = Tail(vunproc)
     /\ vrule' = 1 /\ vpend' = <<>> /\ UNCHANGED vsucc
  \/ /\ e.ev = "rule" /\ vcur # 0 /\ vpend = <<>> /\ vrule <= Runs[vrun].nrules
     /\ vpend' = vsucc[vrule][vcur] /\ vrule' = vrule + 1 /\ UNCHANGED <<vsucc, vunproc, vproc, vcur>>
  \/ e.ev = "push" /\ Consider(e.sp, TRUE)
  \/ e.ev = "skip" /\ Consider(e.sp, FALSE)
  \/ /\ e.ev = "result" /\ vunproc = <<>> /\ vpend = <<>> /\ e.list = vproc /\ NoDup(vproc)
     /\ SeqSet(vproc) = Closure(SeqSet(Runs[vrun].seeds), vsucc)
     /\ UNCHANGED <<vsucc, vunproc, vproc, vcur, vrule, vpend>>

TStep ==
  /\ vrun <= Len(Runs)
  /\ IF vpos > Len(Runs[vrun].events) THEN
        /\ vrun' = vrun + 1 /\ vpos' = 1 /\ vbad' = vbad
        /\ IF vrun + 1 <= Len(Runs) THEN
              /\ vsucc' = Runs[vrun + 1].succ /\ vunproc' = Runs[vrun + 1].seeds /\ vproc' = <<>>
              /\ vcur' = 0 /\ vrule' = 0 /\ vpend' = <<>>
           ELSE UNCHANGED <<vsucc, vunproc, vproc, vcur, vrule, vpend>>
     ELSE LET e == Runs[vrun].events[vpos] IN
        IF ENABLED Consume(e)
        THEN Consume(e) /\ vpos' = vpos + 1 /\ UNCHANGED <<vrun, vbad>>
        ELSE \* rejected: remember where, skip the rest of this run
             /\ vbad' = vbad \cup {[run |-> vrun, pos |-> vpos, unproc |-> vunproc, proc |-> vproc,
                                    cur |-> vcur, pend |-> vpend]}
             /\ vpos' = Len(Runs[vrun].events) + 1
             /\ UNCHANGED <<vsucc, vunproc, vproc, vcur, vrule, vpend, vrun>>
TSpec == TInit /\ [][TStep]_tvars
Done == vrun > Len(Runs)
Finish == Done => JsonSerialize(IOEnv.VOUT, [bad |-> SetToSeq(vbad), runs |-> Len(Runs), done |-> TRUE])
=============================================================================
