------------------------------ MODULE MC_MergeT ------------------------------
(* Small world for MergeT: every ordered pair of base correlations of one     *)
(* group (tables sampled from one polynomial, reference temperatures 2 / 3 /  *)
(* 5 grid units, reference values present or absent, explicit range or none), *)
(* with and without overwriting.  Sharded; the outcome of every pair and the  *)
(* merged correlation evaluated at a few temperatures are exported.           *)
EXTENDS MergeT, Json, IOUtils, Sequences, SequencesExt

CONSTANTS Deep, Stride      \* every Stride-th pair is a case (the theorems are checked on those)
Shard == atoi(IOEnv.SHARD)
NShard == atoi(IOEnv.NSHARD)
Q(n, d) == <<n, d>>
Polys == IF Deep THEN << <<2>>, <<1, 1>>, <<0, 3, -1>> >> ELSE << <<2>>, <<1, 1>> >>
Grid == IF Deep THEN {2, 3, 4, 6} ELSE {2, 4, 6}
TsSets == {S \in SUBSET Grid : Cardinality(S) <= (IF Deep THEN 3 ELSE 2)}
Trefs == {Q(2, 1), Q(3, 1), Q(5, 1)}
Hs == {None, <<Q(-3, 2)>>, <<Q(2, 1)>>}
Ss == {None, <<Q(1, 2)>>}
Rngs == {None, <<Q(1, 1), Q(8, 1)>>, <<Q(5, 2), Q(6, 1)>>}
Mk(p, S, tref, h, s, rng) ==
  LET c == Construct(SetToSeq({R(x) : x \in S}), Polys[p], tref, h, s, rng) IN
  IF c.ok THEN [ok |-> TRUE, p |-> p, c |-> [ts |-> c.c.ts, P |-> c.c.P, tref |-> tref, h |-> h, s |-> s, sl |-> <<>>, rng |-> rng]]
  ELSE [ok |-> FALSE]
Bases == TLCEval({x \in {Mk(p, S, tref, h, s, rng) : p \in 1..Len(Polys), S \in TsSets, tref \in Trefs,
                                                       h \in Hs, s \in Ss, rng \in Rngs} : x.ok})
BaseSeq == TLCEval(SetToSeq(Bases))
\* a pair is a case when both are samples of the same polynomial and the union of the tables determines it
Enough(a, b) == LET n == Cardinality({a.c.ts[k] : k \in 1..Len(a.c.ts)} \cup {b.c.ts[k] : k \in 1..Len(b.c.ts)})
                IN n = 0 \/ n >= Len(Polys[a.p])
\* the merged record must itself be a correlation that can be constructed (its table inside its range):
\* CorrelationDef.Construct's rule, as in Merge.tla's WellFormed
Inside(a, b) == LET t == Temp(a.c, b.c) IN
  /\ (t.rng = None \/ t.ts = <<>> \/ (RLe(t.rng[1], t.ts[1]) /\ RLe(t.ts[Len(t.ts)], t.rng[2])))
  \* nothing to translate: the merged record is committed without any evaluation, so it must be constructible
  /\ ((b.c.h = None /\ b.c.s = None) => Construct(t.ts, t.P, a.c.tref, a.c.h, a.c.s, t.rng).ok)
PairIdx == TLCEval({<<i, j>> \in (1..Len(BaseSeq)) \X (1..Len(BaseSeq)) :
                      BaseSeq[i].p = BaseSeq[j].p /\ Enough(BaseSeq[i], BaseSeq[j]) /\ Inside(BaseSeq[i], BaseSeq[j])
                      /\ (i * 7 + j) % (NShard * Stride) = Shard})
PairSeq == TLCEval(SetToSeq(PairIdx))
Probes == {Q(2, 1), Q(3, 1), Q(5, 1), Q(7, 2), Q(6, 1), Q(15, 2)}
ProbeSeq == SetToSeq(Probes)

Res(i, j, ow) == UpdT(BaseSeq[i].c, BaseSeq[j].c, ow)
Tab == TLCEval([k \in 1..Len(PairSeq) |-> [ow \in BOOLEAN |-> Res(PairSeq[k][1], PairSeq[k][2], ow)]])

\* ---------------------------------------------------------------- model theorems
\* same reference temperature: the translation is the identity (Merge.tla's case)
ASSUME SameTrefIsIdentity == \A k \in 1..Len(PairSeq) :
  LET a == BaseSeq[PairSeq[k][1]].c b == BaseSeq[PairSeq[k][2]].c r == Tab[k][TRUE] IN
  (a.tref = b.tref /\ r.ok) =>
     /\ (b.h # None => r.rec.h = b.h) /\ (b.h = None => r.rec.h = a.h)
     /\ (b.s # None => r.rec.s = b.s /\ r.rec.sl = <<>>)
\* with Cp data both merge orders give the same function of temperature, wherever both succeed
ASSUME TranslationOrderFree == \A k \in 1..Len(PairSeq) :
  LET a == BaseSeq[PairSeq[k][1]].c b == BaseSeq[PairSeq[k][2]].c
      ab == UpdT(a, b, FALSE) ba == UpdT(b, a, FALSE) IN
  (ab.ok /\ ba.ok /\ ab.rec.ts # <<>>) =>
     \A t \in Probes : EvalHm(ab.rec, t) = EvalHm(ba.rec, t) /\ EvalSm(ab.rec, t) = EvalSm(ba.rec, t)
\* a refused update leaves the target as it was; the reference temperature of the target is always kept
ASSUME AtomicT == \A k \in 1..Len(PairSeq) : \A ow \in BOOLEAN :
  LET a == BaseSeq[PairSeq[k][1]].c r == Tab[k][ow] IN
  (~r.ok => r.rec = a) /\ r.rec.tref = a.tref
\* overwriting never raises the conflict; without it a conflict needs a datum on both sides
ASSUME ConflictNeedsBoth == \A k \in 1..Len(PairSeq) :
  LET a == BaseSeq[PairSeq[k][1]].c b == BaseSeq[PairSeq[k][2]].c IN
  /\ (~Tab[k][TRUE].ok => Tab[k][TRUE].cls \in {"IncompleteDataError", "ValueError"})
  /\ ((~Tab[k][FALSE].ok /\ Tab[k][FALSE].cls = "ReadOnlyDataError") => ((a.h # None /\ b.h # None) \/ (a.s # None /\ b.s # None)))

VARIABLES vcase, vout
Init == vcase = 0 /\ vout = [ok |-> FALSE, cls |-> "none"]
Next == vcase = 0 /\ \E k \in 1..Len(PairSeq), ow \in BOOLEAN : vcase' = k /\ vout' = [ok |-> Tab[k][ow].ok, cls |-> IF Tab[k][ow].ok THEN "ok" ELSE Tab[k][ow].cls]
OutcomeKinds == vout.cls \in {"none", "ok", "ReadOnlyDataError", "IncompleteDataError", "ValueError"}
Show(c) == [ts |-> c.ts, P |-> c.P, tref |-> c.tref, h |-> c.h, s |-> c.s, sl |-> c.sl, rng |-> c.rng]
OutRec(r) == IF ~r.ok THEN [ok |-> FALSE, cls |-> r.cls]
             ELSE [ok |-> TRUE, rec |-> Show(r.rec),
                   hterm |-> IF r.rec.h = None THEN <<>> ELSE <<TRat(r.rec.h[1])>>,
                   sterm |-> IF r.rec.s = None THEN <<>> ELSE <<Term(r.rec.s[1], r.rec.sl)>>,
                   evals |-> [i \in 1..Len(ProbeSeq) |-> [t |-> ProbeSeq[i], h |-> EvalHm(r.rec, ProbeSeq[i]),
                                                           s |-> EvalSm(r.rec, ProbeSeq[i])]]]
Export == JsonSerialize(IOEnv.VOUT,
  [cases |-> [k \in 1..Len(PairSeq) |->
       [a |-> Show(BaseSeq[PairSeq[k][1]].c), b |-> Show(BaseSeq[PairSeq[k][2]].c),
        plain |-> OutRec(Tab[k][FALSE]), ow |-> OutRec(Tab[k][TRUE])]],
   nbases |-> Len(BaseSeq)])
Post == TLCGet("stats").diameter > 0 /\ Export
=============================================================================
