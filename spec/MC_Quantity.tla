---------------------------- MODULE MC_Quantity ----------------------------
(* Exhaustive small world for C11: every ordered pair of a universe of     *)
(* quantities (one per base dimension, common derived ones, a fractional   *)
(* one, plain numbers, zero, zero-valued quantities, arrays) under every   *)
(* operator, and calculator histories up to depth MaxDepth.                *)
EXTENDS Quantity, Json, IOUtils, Sequences, SequencesExt

CONSTANTS MaxDepth, NDims

Z == RZero
D(a, b, c, d, e, f, g) == <<R(a), R(b), R(c), R(d), R(e), R(f), R(g)>>
DimList == <<D(1,0,0,0,0,0,0), D(0,0,1,0,0,0,0), D(2,1,-2,0,0,-1,0),
             D(2,1,-2,0,-1,-1,0), <<<<1,2>>, Z, Z, Z, Z, Z, Z>>,
             \* tenths: 3/10 - 1/10 - 1/5 is exactly zero here and a rounding residue in binary floating point
             <<<<3,10>>, Z, Z, Z, Z, Z, Z>>, <<<<1,10>>, Z, Z, Z, Z, Z, Z>>, <<<<1,5>>, Z, Z, Z, Z, Z, Z>>,
             D(0,1,0,0,0,0,0), D(0,0,0,0,1,0,0), D(1,1,-2,0,0,0,0),
             D(0,0,0,1,0,0,0), D(0,0,0,0,0,1,0), D(0,0,0,0,0,0,1),
             D(2,1,-2,0,0,0,0)>>
Dims == {DimList[k] : k \in 1..NDims}
Mags == {R(-2), R(1), R(3), <<1, 2>>, R(4)}
Scalars == {Qty(v, d) : v \in Mags, d \in Dims}
            \cup {Qty(RZero, DimList[1]), Qty(RZero, DimList[2])}   \* zero-valued quantities
Plains == {Num(R(2)), Num(RZero), Num(<<-3, 2>>)}
Arrays == {QtyArr(<<R(1), R(2)>>, DimList[1]), QtyArr(<<R(2), R(1)>>, DimList[1]),
           QtyArr(<<R(1), R(3)>>, DimList[2]), NumArr(<<RZero, RZero>>),
           QtyArr(<<RZero, R(1)>>, DimList[1])}
U == TLCEval(Scalars \cup Plains \cup Arrays)
UnitsU == TLCEval({Qty(v, d) : v \in {R(1), <<1, 100>>}, d \in Dims})
Pows == {R(2), R(-1), <<1, 2>>, R(0), R(3)}

\* ---------------------------------------------- static model theorems
SameDimScalars == {<<a, b>> \in Scalars \X Scalars : a.d = b.d}
ASSUME Trichotomy == \A p \in SameDimScalars :
  LET a == p[1] b == p[2] IN
  Cardinality({op \in {"lt", "eq", "gt"} : Apply2(op, a, b).b}) = 1
ASSUME Antisym == \A p \in SameDimScalars :
  Apply2("lt", p[1], p[2]).b <=> Apply2("gt", p[2], p[1]).b
ASSUME LeGe == \A p \in SameDimScalars :
  /\ Apply2("le", p[1], p[2]).b <=> ~Apply2("gt", p[1], p[2]).b
  /\ Apply2("ge", p[1], p[2]).b <=> ~Apply2("lt", p[1], p[2]).b
  /\ Apply2("ne", p[1], p[2]).b <=> ~Apply2("eq", p[1], p[2]).b
ASSUME AddSub == \A p \in SameDimScalars :
  LET s == Apply2("add", p[1], p[2]) IN Apply2("sub", s, p[2]) = p[1]
ASSUME MulDiv == \A a \in Scalars, b \in Scalars :
  b.v = RZero \/ Apply2("div", Apply2("mul", a, b), b) = a
ASSUME Incompatible == \A a \in Scalars, b \in Scalars : a.d # b.d =>
  /\ \A op \in {"add", "sub", "lt", "le", "gt", "ge"} : Apply2(op, a, b) = Err("UnitsError")
  /\ Apply2("eq", a, b) = Bool(FALSE) /\ Apply2("ne", a, b) = Bool(TRUE)
  /\ InUnits(a, b) = Err("UnitsError")
ASSUME PlainOperand == \A a \in Scalars, n \in Plains :
  Apply2("add", a, n) = (IF RIsZero(n.v) THEN a ELSE Err("UnitsError"))
ASSUME SqrtSquare == \A a \in Scalars : RHasSqrt(a.v) /\ ~RIsZero(a.v) =>
  ApplyPow(ApplyPow(a, <<1, 2>>), R(2)) = a

\* ---------------------------------------------- calculator exploration
MInit == acc \in U /\ res = [t |-> "none"]
MBin == \E op \in BinOps, b \in U : DoBin(op, b)
MRBin == \E op \in BinOps, b \in Plains : DoRBin(op, b)
MUn == \E op \in UnOps : DoUn(op)
MPow == \E p \in Pows : DoPow(p)
MInUnits == \E u \in UnitsU : DoInUnits(u)
MNext == MBin \/ MRBin \/ MUn \/ MPow \/ MInUnits
Depth == TLCGet("level") <= MaxDepth
Small == \A k \in 1..Len(Vals(acc)) : AbsI(Vals(acc)[k][1]) < 1000 /\ Vals(acc)[k][2] < 1000

InvWellFormed == WellFormed(acc)
\* errors and comparisons never modify the value
ErrKeeps == [][(res'.t \in {"err", "bool", "bools"}) => acc' = acc]_qvars

\* ---------------------------------------------- export of every transition from U
Export ==
  JsonSerialize(IOEnv.VOUT,
    [bin |-> SetToSeq({[op |-> op, a |-> a, b |-> b, r |-> Apply2(op, a, b)] :
                         op \in BinOps, a \in U, b \in U}),
     un |-> SetToSeq({[op |-> op, a |-> a, r |-> Apply1(op, a)] : op \in UnOps, a \in U}),
     pow |-> SetToSeq({[a |-> a, p |-> p, r |-> ApplyPow(a, p)] : a \in Scalars, p \in Pows}),
     inu |-> SetToSeq({[a |-> a, u |-> u, r |-> InUnits(a, u)] : a \in Scalars \cup {x \in Arrays : x.t = "arr"}, u \in UnitsU})])
Post == TLCGet("stats").diameter > 0 /\ Export
=============================================================================
