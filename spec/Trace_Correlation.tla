-------------------------- MODULE Trace_Correlation --------------------------
(* Trace validation for C05/C06 on general tables (shipped groups, random    *)
(* tables): the real temperatures are replaced by their ranks (only order    *)
(* matters for the outcome class and for the integration plan).  Each trace  *)
(* is one correlation: a "construct" event, then "eval" events.  TLC checks  *)
(* the outcome class of every event and emits how each value is determined   *)
(* by the data (table entry / reference value / integration plan / H - S);   *)
(* the harness evaluates that against the recorded float.                    *)
EXTENDS Correlation, Json, IOUtils, Sequences

In == JsonDeserialize(IOEnv.VIN)
Traces == In.traces

VARIABLES vtid, vpos, vbad, vhow
tvars == <<vcorr, vout, vtid, vpos, vbad, vhow>>

RatSeq(a) == [k \in 1..Len(a) |-> R(a[k])]
Opt(a) == IF a = <<>> THEN <<>> ELSE <<R(a[1])>>

TInit == CInit /\ vtid = 1 /\ vpos = 1 /\ vbad = {} /\ vhow = <<>>

ClassOK(e, x) ==
  IF x.k = "error" THEN
       /\ e.obs.k = "error"
       /\ IF x.cls = "incomplete" THEN e.obs.cls = "IncompleteDataError"
          ELSE e.obs.cls \in {"OutsideCorrelationError", "IncompleteDataError"}
  ELSE e.obs.k = x.k

TStep ==
  /\ vtid <= Len(Traces)
  /\ IF vpos > Len(Traces[vtid]) THEN
        /\ vtid' = vtid + 1 /\ vpos' = 1 /\ vcorr' = NoCorr /\ vout' = [k |-> "none"]
        /\ UNCHANGED <<vbad, vhow>>
     ELSE LET e == Traces[vtid][vpos] IN
        /\ vpos' = vpos + 1 /\ vtid' = vtid
        /\ \/ /\ e.op = "construct"
              \* a general table: the polynomial slot is unused (<<>>)
              /\ DoConstruct(RatSeq(e.ts), <<>>, R(e.tref), Opt(e.h), Opt(e.s),
                             IF e.rng = <<>> THEN <<>> ELSE <<R(e.rng[1]), R(e.rng[2])>>)
              /\ vbad' = IF vcorr'.ok = e.obs.ok /\ (vcorr'.ok \/ e.obs.cls = vcorr'.cls)
                         THEN vbad ELSE vbad \cup {<<vtid, vpos>>}
              /\ vhow' = Append(vhow, [k |-> "construct"])
           \/ /\ e.op = "eval" /\ UNCHANGED vcorr
              /\ IF vcorr.ok THEN
                    LET x == How(vcorr.c, e.prop, R(e.t)) IN
                    /\ vout' = x
                    /\ vbad' = IF ClassOK(e, x) THEN vbad ELSE vbad \cup {<<vtid, vpos>>}
                    /\ vhow' = Append(vhow, x)
                 ELSE vout' = vout /\ vbad' = vbad /\ vhow' = Append(vhow, [k |-> "skipped"])
TSpec == TInit /\ [][TStep]_tvars
Done == vtid > Len(Traces)
Finish == Done => JsonSerialize(IOEnv.VOUT, [bad |-> SetToSeq(vbad), how |-> vhow, done |-> TRUE])
=============================================================================
