INIT Init
NEXT Next
INVARIANT Conserved
INVARIANT NothingElse
POSTCONDITION Post
CHECK_DEADLOCK FALSE
