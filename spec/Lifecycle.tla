------------------------------ MODULE Lifecycle ------------------------------
(* C15: results do not depend on what the library object did before.          *)
(* Long-lived objects: library handles (loaded from a source, possibly merged *)
(* with others), decompositions (plain descriptor mappings), estimates.       *)
(* Every observable result is identified by a *query key* made only of file   *)
(* contents and explicit arguments; the property is that the result is a      *)
(* function of that key (the harness obtains the function's value from a      *)
(* single-operation run in a fresh process).                                  *)
(*                                                                            *)
(* The code has one piece of hidden state: a library remembers the last       *)
(* molecule it decomposed and an estimate takes "its" molecule (used for the  *)
(* elemental reference) from there.  That deviation is modelled explicitly    *)
(* (devkey, Faithful) so that TLC can exhibit the shortest history on which   *)
(* it shows, and so that trace validation can tell it from anything else.     *)
EXTENDS Integers, Sequences, FiniteSets, TLC

CONSTANTS Handles, LibNames, Mols, Props, Temps, Groups, MaxObjs, Faithful

None == "none"
VARIABLES vlibs,   \* handle -> [srcs : Seq(LibName) (<<>> = not loaded), last : molecule or None]
          vdecs,   \* Seq([scheme, mol])
          vests,   \* Seq([srcs, scheme, mol, stale])
          vobs     \* last observation: [key, devkey]
lvars == <<vlibs, vdecs, vests, vobs>>

Loaded(h) == vlibs[h].srcs # <<>>
LInit == /\ vlibs = [h \in Handles |-> [srcs |-> <<>>, last |-> None]]
         /\ vdecs = <<>> /\ vests = <<>>
         /\ vobs = [key |-> <<"init">>, devkey |-> <<"init">>]
Obs(k) == vobs' = [key |-> k, devkey |-> k]

Load(h, L) ==
  /\ vlibs' = [vlibs EXCEPT ![h] = [srcs |-> <<L>>, last |-> None]]
  /\ Obs(<<"contents", <<L>>>>) /\ UNCHANGED <<vdecs, vests>>
\* merge the contents of handle h2 into h1 (the scheme of h1 is kept; h2 is only read).
\* With ow the data of h2 win over what h1 has; that merge is written "!" before the
\* source in the key and is modelled for a single-source h2 only (a flat key cannot say
\* "the merged h2, as a whole, wins").
Merged(h1, h2, ow) == vlibs[h1].srcs \o (IF ow THEN <<"!">> ELSE <<>>) \o vlibs[h2].srcs
Update(h1, h2, ow) ==
  /\ h1 # h2 /\ Loaded(h1) /\ Loaded(h2) /\ (ow => Len(vlibs[h2].srcs) = 1)
  /\ vlibs' = [vlibs EXCEPT ![h1].srcs = Merged(h1, h2, ow)]
  /\ Obs(<<"contents", Merged(h1, h2, ow)>>) /\ UNCHANGED <<vdecs, vests>>
Decompose(h, m) ==
  /\ Loaded(h) /\ Len(vdecs) < MaxObjs
  /\ vlibs' = [vlibs EXCEPT ![h].last = m]                       \* hidden state of the code
  /\ vdecs' = Append(vdecs, [scheme |-> vlibs[h].srcs[1], mol |-> m])
  /\ Obs(<<"descriptors", vlibs[h].srcs[1], m>>) /\ UNCHANGED vests
\* estimate from an earlier decomposition made under the same scheme
Estimate(h, d) ==
  /\ Loaded(h) /\ d \in 1..Len(vdecs) /\ vdecs[d].scheme = vlibs[h].srcs[1] /\ Len(vests) < MaxObjs
  /\ vests' = Append(vests, [srcs |-> vlibs[h].srcs, scheme |-> vdecs[d].scheme, mol |-> vdecs[d].mol,
                             stale |-> vlibs[h].last])
  /\ Obs(<<"estimate", vlibs[h].srcs, vdecs[d].scheme, vdecs[d].mol>>) /\ UNCHANGED <<vlibs, vdecs>>
Eval(e, p, t, sel) ==
  /\ e \in 1..Len(vests)
  /\ LET x == vests[e]
         k(m) == <<"eval", x.srcs, x.scheme, x.mol, p, t, IF sel THEN m ELSE "-">>
     IN vobs' = [key |-> k(x.mol), devkey |-> k(x.stale)]
  /\ UNCHANGED <<vlibs, vdecs, vests>>
EvalGroup(h, g, p, t) ==
  /\ Loaded(h) /\ Obs(<<"group", vlibs[h].srcs, g, p, t>>) /\ UNCHANGED <<vlibs, vdecs, vests>>

LNext == \/ \E h \in Handles, L \in LibNames : Load(h, L)
         \/ \E h1 \in Handles, h2 \in Handles, ow \in BOOLEAN : Update(h1, h2, ow)
         \/ \E h \in Handles, m \in Mols : Decompose(h, m)
         \/ \E h \in Handles, d \in 1..MaxObjs : Estimate(h, d)
         \/ \E e \in 1..MaxObjs, p \in Props, t \in Temps, sel \in BOOLEAN : Eval(e, p, t, sel)
         \/ \E h \in Handles, g \in Groups, p \in Props, t \in Temps : EvalGroup(h, g, p, t)

\* what the implementation computes: the key of the ideal design, or (Faithful) the
\* key with the hidden state substituted
Computed == IF Faithful THEN vobs.devkey ELSE vobs.key
\* the property: every result is the function of its query key
HistoryFree == Computed = vobs.key
\* computing results never alters any library's data
ReadOnlyStep == \A h \in Handles :
   (vlibs'[h].srcs # vlibs[h].srcs) =>
      (\E L \in LibNames : vlibs'[h].srcs = <<L>>) \/ (\E h2 \in Handles, ow \in BOOLEAN : vlibs'[h].srcs = Merged(h, h2, ow))
ReadOnly == [][ReadOnlyStep]_lvars
Bound == TLCGet("level") <= 6 /\ \A h \in Handles : Len(vlibs[h].srcs) <= 3
=============================================================================
