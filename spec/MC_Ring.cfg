INIT Init
NEXT Next
INVARIANT OutcomeClass
INVARIANT ErrorInsideText
POSTCONDITION Post
CHECK_DEADLOCK FALSE
