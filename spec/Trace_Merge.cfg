SPECIFICATION TSpec
INVARIANT Finish
PROPERTY TraceAtomic
CHECK_DEADLOCK FALSE
