CONSTANTS
  Species = {1, 2, 3, 4}
  NRules = 1
  ProcessedOnly = FALSE
  MaxProd = 1
SPECIFICATION MSpec
INVARIANT Within
INVARIANT Complete
INVARIANT NoDupInv
PROPERTY Terminates
CHECK_DEADLOCK FALSE
