CONSTANTS
  MaxChunks = 2
  MaxTotal = 3
  MaxKeys = 1
  MaxCount = 2
  ZeroCounts = TRUE
  NAlpha = 3
INIT MInit
NEXT MNext
CONSTRAINT Bounded
INVARIANT Agree
INVARIANT PlainInterop
PROPERTY ReadOnly
POSTCONDITION Post
CHECK_DEADLOCK FALSE
