------------------------------- MODULE Reaction -------------------------------
(* C16: what a RING reaction rule does.  A rule (RingReader.ReadRule) is a     *)
(* reactant fragment plus a list of edits on its labelled atoms.  Running it   *)
(* on a molecule yields, for every embedding m of the fragment (RingMatch),    *)
(* the molecule graph with exactly those edits applied to the images m[.] of   *)
(* the labels; the product set is the set of connected components.             *)
(* An edit that has no meaning on the matched atoms (forming a bond that is    *)
(* already there, changing the order of a bond that is not there or of an      *)
(* aromatic / dative bond, a negative radical count) makes the result          *)
(* "unspecified" (the statement is silent; nothing is asserted).               *)
EXTENDS RingMatch

EditKind(kind) == CASE kind = T_single -> "SINGLE" [] kind = T_double -> "DOUBLE" [] kind = T_triple -> "TRIPLE"
                    [] kind = T_quadruple -> "QUADRUPLE" [] kind = T_aromatic -> "AROMATIC" [] kind = T_partial -> "DATIVE"
Up(k) == CASE k = "SINGLE" -> "DOUBLE" [] k = "DOUBLE" -> "TRIPLE" [] k = "TRIPLE" -> "QUADRUPLE" [] OTHER -> "?"
Down(k) == CASE k = "DOUBLE" -> "SINGLE" [] k = "TRIPLE" -> "DOUBLE" [] k = "QUADRUPLE" -> "TRIPLE"
             [] k = "SINGLE" -> "none" [] OTHER -> "?"
Order2(k) == CASE k = "SINGLE" -> 2 [] k = "DOUBLE" -> 4 [] k = "TRIPLE" -> 6 [] k = "QUADRUPLE" -> 8
               [] k = "AROMATIC" -> 3 [] OTHER -> 0

Unspecified == [unspecified |-> TRUE]
IsUnspec(g) == "unspecified" \in DOMAIN g
\* graph = [atoms, bonds] (rings / stereo are not carried through an edit)
WithoutBond(g, a, b) == [g EXCEPT !.bonds = SelectSeq(g.bonds, LAMBDA bd : {bd.a, bd.b} # {a, b})]
WithBond(g, a, b, k) == [g EXCEPT !.bonds = Append(g.bonds, [a |-> a, b |-> b, kind |-> k, ring |-> FALSE])]

ApplyEdit(g, e, m) ==
  IF IsUnspec(g) THEN g
  ELSE LET a == m[e.a] IN
  CASE e.op = "form" -> LET b == m[e.b] IN IF HasBond(g, a, b) THEN Unspecified ELSE WithBond(g, a, b, EditKind(e.kind))
    \* a break declares the order of the bond it breaks (checked against the pattern when the rule is read); if an
    \* earlier edit of the same rule has changed that order the declaration no longer describes the bond
    [] e.op = "break" -> LET b == m[e.b] IN
         IF ~HasBond(g, a, b) \/ TheBond(g, a, b).kind # EditKind(e.kind) THEN Unspecified ELSE WithoutBond(g, a, b)
    [] e.op = "modify" -> LET b == m[e.b] IN IF ~HasBond(g, a, b) THEN Unspecified
                          ELSE WithBond(WithoutBond(g, a, b), a, b, EditKind(e.kind))
    [] e.op = "increase" -> LET b == m[e.b] IN
         IF ~HasBond(g, a, b) \/ Up(TheBond(g, a, b).kind) = "?" THEN Unspecified
         ELSE WithBond(WithoutBond(g, a, b), a, b, Up(TheBond(g, a, b).kind))
    [] e.op = "decrease" -> LET b == m[e.b] IN
         IF ~HasBond(g, a, b) \/ Down(TheBond(g, a, b).kind) = "?" THEN Unspecified
         ELSE IF Down(TheBond(g, a, b).kind) = "none" THEN WithoutBond(g, a, b)
         ELSE WithBond(WithoutBond(g, a, b), a, b, Down(TheBond(g, a, b).kind))
    [] e.op = "radinc" -> [g EXCEPT !.atoms[a].rad = g.atoms[a].rad + 1]
    [] e.op = "raddec" -> IF g.atoms[a].rad = 0 THEN Unspecified ELSE [g EXCEPT !.atoms[a].rad = g.atoms[a].rad - 1]
    [] e.op = "radset" -> [g EXCEPT !.atoms[a].rad = e.b, !.atoms[a].q = 0]
    [] e.op = "chginc" -> [g EXCEPT !.atoms[a].q = g.atoms[a].q + 1]
    [] e.op = "chgdec" -> [g EXCEPT !.atoms[a].q = g.atoms[a].q - 1]
RECURSIVE ApplyEdits(_, _, _)
ApplyEdits(g, es, m) == IF es = <<>> THEN g ELSE ApplyEdits(ApplyEdit(g, Head(es), m), Tail(es), m)

\* connected components of the edited graph, as sets of atom indices
RECURSIVE Grow(_, _)
Grow(g, S) == LET S3 == S \cup {x \in 1..Len(g.atoms) : \E k \in 1..Len(g.bonds) :
                                   (g.bonds[k].a \in S /\ g.bonds[k].b = x) \/ (g.bonds[k].b \in S /\ g.bonds[k].a = x)}
              IN IF S3 = S THEN S ELSE Grow(g, S3)
Components(g) == {Grow(g, {a}) : a \in 1..Len(g.atoms)}

\* one product set per embedding of the (single) reactant
RunRule(rule, mol) ==
  LET q == rule.reactants[1]
      g0 == [atoms |-> mol.atoms, bonds |-> mol.bonds]
  IN {[m |-> m, g |-> ApplyEdits(g0, rule.edits, m)] : m \in Matches(q, mol)}

\* ---- several reactants (beyond the statement of C16, which speaks of one molecule): the reactant
\* molecules are laid side by side (atom indices of the k-th shifted by the sizes of all earlier ones), every
\* combination of one embedding per reactant is one match, the edits may join atoms of different molecules.
\* Cumulative = FALSE is the other design that must be told apart: the k-th molecule shifted by the size of
\* the (k-1)-th only (it coincides with the right one for one and two reactants).
RECURSIVE SumLen(_, _)
SumLen(mols, k) == IF k = 0 THEN 0 ELSE Len(mols[k].atoms) + SumLen(mols, k - 1)
Offset(mols, k, cumulative) == IF k = 1 THEN 0 ELSE IF cumulative THEN SumLen(mols, k - 1) ELSE Len(mols[k - 1].atoms)
RECURSIVE SideBySide(_, _)
SideBySide(mols, k) ==      \* graph of the first k molecules
  IF k = 0 THEN [atoms |-> <<>>, bonds |-> <<>>]
  ELSE LET g == SideBySide(mols, k - 1) off == SumLen(mols, k - 1) IN
       [atoms |-> g.atoms \o mols[k].atoms,
        bonds |-> g.bonds \o [j \in 1..Len(mols[k].bonds) |->
                     [mols[k].bonds[j] EXCEPT !.a = @ + off, !.b = @ + off]]]
RECURSIVE Combos(_, _, _, _)
Combos(rule, mols, k, cumulative) ==     \* flat matches over the first k reactants
  IF k = 0 THEN {<<>>}
  ELSE LET off == Offset(mols, k, cumulative) IN
       {c \o [i \in 1..Len(m) |-> m[i] + off] : c \in Combos(rule, mols, k - 1, cumulative),
                                                  m \in Matches(rule.reactants[k], mols[k])}
RunRuleN(rule, mols, cumulative) ==
  LET n == Len(rule.reactants) g0 == SideBySide(mols, n) IN
  {[m |-> m, g |-> ApplyEdits(g0, rule.edits, m)] : m \in Combos(rule, mols, n, cumulative)}

\* ---- what balance means: on every labelled atom the change of (bond-order sum +
\* radical electrons + formal charge) is zero  (doubled units, aromatic = 3)
BondSum2(g, a) == LET RECURSIVE S(_)
                      S(k) == IF k = 0 THEN 0
                              ELSE (IF a \in {g.bonds[k].a, g.bonds[k].b} THEN Order2(g.bonds[k].kind) ELSE 0) + S(k - 1)
                  IN S(Len(g.bonds))
ElectronsConserved(mol, res) ==
  IsUnspec(res.g) \/ \A i \in 1..Len(res.m) :
     LET a == res.m[i] g0 == [atoms |-> mol.atoms, bonds |-> mol.bonds] IN
     BondSum2(res.g, a) + 2 * res.g.atoms[a].rad + 2 * res.g.atoms[a].q
       = BondSum2(g0, a) + 2 * mol.atoms[a].rad + 2 * mol.atoms[a].q
\* atoms are never created or destroyed; atoms and bonds outside the image are untouched
Untouched(mol, res) ==
  IsUnspec(res.g) \/
  /\ Len(res.g.atoms) = Len(mol.atoms)
  /\ \A a \in 1..Len(mol.atoms) : res.g.atoms[a].z = mol.atoms[a].z
  /\ LET img == {res.m[i] : i \in 1..Len(res.m)} IN
     /\ \A a \in (1..Len(mol.atoms)) \ img : res.g.atoms[a] = mol.atoms[a]
     /\ \A k \in 1..Len(mol.bonds) : ({mol.bonds[k].a, mol.bonds[k].b} \subseteq img)
           \/ (\E j \in 1..Len(res.g.bonds) : res.g.bonds[j].a = mol.bonds[k].a /\ res.g.bonds[j].b = mol.bonds[k].b
                                               /\ res.g.bonds[j].kind = mol.bonds[k].kind)
=============================================================================
