CONSTANTS
  Deep = TRUE
  Stride = 60
INIT Init
NEXT Next
INVARIANT OutcomeKinds
POSTCONDITION Post
CHECK_DEADLOCK FALSE
