------------------------------ MODULE MC_Units ------------------------------
(* Bounded-exhaustive world for C10: every unit name x every prefix, every  *)
(* two-factor expression over a set of atoms (names with prefixes and       *)
(* powers, numbers) under every operator spelling, and every single-token   *)
(* mutation of a subset; evaluated by the specification, checked against    *)
(* definitional identities, and exported for replay on the implementation.  *)
(* The work is sharded over TLC processes (IOEnv.SHARD of IOEnv.NSHARD).    *)
EXTENDS Units, UnitCases, Json, IOUtils

CONSTANTS NNames, NPows, WithMutants
Shard == atoi(IOEnv.SHARD)
NShard == atoi(IOEnv.NSHARD)

SP == <<32>>
NameList == << <<109>>, <<115>>, <<74>>, <<109,111,108>>, <<103>>, <<76>>, <<75>>,
               <<99,97,108>>, <<80,97>>, <<104>>, <<101,86>>, <<109,105,110>> >>
            \* m s J mol g L K cal Pa h eV min
PrefList == << <<>>, <<107>>, <<109>>, <<100,97>>, <<117>> >>   \* none k m da u
PowList == << <<>>, <<94,50>>, <<94,45,49>>, <<94,48,46,53>>, <<94,40,45,50,41>>, <<94,51>> >>
            \* "" ^2 ^-1 ^0.5 ^(-2) ^3
NumList == << <<50>>, <<50,46,53>>, <<49,48>>, <<50,101,51>>, <<49,46,53,69,45,50>> >>   \* 2 2.5 10 2e3 1.5E-2
OpList == << SP, <<42>>, <<47>>, <<32,42,32>> >>    \* juxtaposition, *, /, " * "

Atoms == {PrefList[p] \o NameList[n] \o PowList[w] :
             p \in 1..3, n \in 1..NNames, w \in 1..NPows}
         \cup {NumList[k] : k \in 1..Len(NumList)}
Lookups == {p \o n : p \in PrefixNames \cup {<<>>}, n \in UnitNames}
Pairs == {a \o o \o b : a \in Atoms, b \in Atoms, o \in {OpList[k] : k \in 1..Len(OpList)}}
\* single-token mutants of "a op b" expressions over a small atom set
MAtoms == {<<109>>, <<107,74>>, <<115,94,45,49>>, <<50>>, <<109,111,108,94,40,45,50,41>>}
MBase == {Tokenise(a \o o \o b) : a \in MAtoms, b \in MAtoms, o \in {SP, <<47>>}}
Vocab == {<<109>>, <<94>>, <<40>>, <<41>>, <<47>>, <<42>>, <<50>>, <<45,49>>, <<102,111,111>>,
          <<46>>, <<36>>, <<49,46,50,46,51>>, <<50,101,43,48,50>>, <<101>>, <<51,101>>}   \* m ^ ( ) / * 2 -1 foo . $ 1.2.3 2e+02 e 3e
RECURSIVE JoinSp(_)
JoinSp(ts) == IF ts = <<>> THEN <<>> ELSE IF Len(ts) = 1 THEN ts[1]
              ELSE ts[1] \o SP \o JoinSp(Tail(ts))
MPos == {tk \in MBase \X (1..6) : tk[2] <= Len(tk[1])}
Mutants == IF ~WithMutants THEN {} ELSE
  {JoinSp(SubSeq(kk[1], 1, kk[2] - 1) \o SubSeq(kk[1], kk[2] + 1, Len(kk[1]))) : kk \in MPos} \cup
  {JoinSp(SubSeq(kk[1], 1, kk[2]) \o SubSeq(kk[1], kk[2], Len(kk[1]))) : kk \in MPos} \cup
  {JoinSp([kk[1] EXCEPT ![kk[2]] = v]) : kk \in MPos, v \in Vocab} \cup
  {JoinSp(SubSeq(kk[1], 1, kk[2]) \o <<v>> \o SubSeq(kk[1], kk[2] + 1, Len(kk[1]))) : kk \in MPos, v \in Vocab}
  \cup {<<>>, SP, <<40,41>>, <<109,94>>, <<94,50>>, <<40,109>>, <<109,41>>, <<109,47>>, <<47,109>>}

Triples == {a \o o1 \o b \o o2 \o c : a \in MAtoms, b \in MAtoms, c \in MAtoms,
                                        o1 \in {SP, <<47>>, <<42>>}, o2 \in {SP, <<47>>, <<42>>}}
AllCases == TLCEval(SetToSeq(Lookups \cup Pairs \cup Triples \cup {x \in Mutants : \A k \in 1..Len(x) : x[k] # 48}))
MyIdx == TLCEval({j \in 1..Len(AllCases) : j % NShard = Shard})

Small(v) == \A b \in DOMAIN v.mag.f : v.mag.f[b][2] <= 64
Result(t) == LET v == EvalText(t) IN
  IF v.ok THEN [ok |-> TRUE, mag |-> MagOut(v.mag), dim |-> v.dim] ELSE v
ResTab == TLCEval([j \in MyIdx |-> Result(AllCases[j])])

\* ------------------------------------------------- model theorems (shard 0 only)
Same(a, b) == LET x == EvalText(a) y == EvalText(b) IN x.ok /\ y.ok /\ x.mag = y.mag /\ x.dim = y.dim
ASSUME Definitions == Shard # 0 \/ \A k \in 1..Len(DefPairs) : Same(DefPairs[k][1], DefPairs[k][2])
ASSUME PrefixScaling == Shard # 0 \/
  \A p \in PrefixNames, n \in UnitNames :
     (p \o n) \notin UnitNames /\ ~(Len(p) = 2 /\ (Tail(p) \o n) \in UnitNames) /\
     ~(Len(p \o n) > 1 /\ SubSeq(p \o n, 1, 1) \in PrefixNames /\ Tail(p \o n) \in UnitNames /\ Len(p) = 2)
     => LET v == Lookup(p \o n) IN
        v.ok /\ v.dim = UnitOf(n).dim /\ v.mag = MagMul(MagPow10(PrefixExp(p)), UnitOf(n).mag)
ASSUME JuxtaIsProduct == Shard # 0 \/
  \A a \in MAtoms, b \in MAtoms : Same(a \o SP \o b, a \o <<42>> \o b)
ASSUME DivLeftAssoc == Shard # 0 \/
  \A a \in MAtoms, b \in MAtoms, c \in MAtoms :
     Same(a \o <<47>> \o b \o <<47>> \o c, a \o <<47, 40>> \o b \o SP \o c \o <<41>>)
ASSUME ThereAndBack == Shard # 0 \/
  \A n \in UnitNames, p \in {<<>>, <<107>>, <<117>>} :
     LET q == Lookup(p \o n) b == Lookup(n) c == Convert(q, b) IN
     c.ok /\ MagMul(c.mag, b.mag) = q.mag
ASSUME ConvertIncompatible == Shard # 0 \/
  \A n \in UnitNames, m \in UnitNames : UnitOf(n).dim # UnitOf(m).dim =>
     ~Convert(Lookup(n), Lookup(m)).ok
ASSUME UnknownNames == Shard # 0 \/
  \A t \in {<<102,111,111>>, <<120>>, <<109,109,109>>, <<107>>, <<100,97>>} : EvalText(t) = ParseErr

\* ------------------------------------------------- cursor state machine
VARIABLES vcase, vout
Init == vcase = 0 /\ vout = [ok |-> FALSE, cls |-> "none"]
Next == vcase = 0 /\ \E j \in MyIdx : vcase' = j /\ vout' = ResTab[j]
\* results are values or the units parse error, nothing else
InvOutcome == vcase = 0 \/ vout.ok \/ vout.cls = "UnitsParseError"
Export == JsonSerialize(IOEnv.VOUT,
            [cases |-> [j \in MyIdx |-> [text |-> AllCases[j], r |-> ResTab[j]]],
             total |-> Len(AllCases),
             defs |-> IF Shard = 0 THEN DefPairs ELSE <<>>])
Post == TLCGet("stats").diameter > 0 /\ Export
=============================================================================
