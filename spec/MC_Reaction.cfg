INIT Init
NEXT Next
INVARIANT BalanceMeansConservation
INVARIANT NothingElseChanges
POSTCONDITION Post
CHECK_DEADLOCK FALSE
