------------------------------ MODULE RingParser ------------------------------
(* C09 / C08 / C16 / C02: a PEG interpreter for RingGrammar.tla with the       *)
(* lexical conventions of RING text:                                           *)
(*   - filler (space, newline, tab) is skipped at the start and after every    *)
(*     consumed terminal; terminals themselves are matched verbatim (so the    *)
(*     multi-word keywords contain exactly one space);                         *)
(*   - ordered choice, no backtracking into a choice that succeeded;           *)
(*   - literal sets are tried longest first;                                   *)
(*   - identifiers are maximal runs of letters, digits and '_';                *)
(*   - a number is read digit by digit and filler is skipped after every digit *)
(*     taken, so digits separated only by filler form one number ("1 2" is 12: *)
(*     the package's lexical convention, transcribed, FROZEN-FROM-IMPL).       *)
(* Result: a syntax tree (rule nodes [n, c], string leaves [s], integer leaves *)
(* [i]) after consuming the whole text, or the furthest failure position.      *)
EXTENDS RingGrammar, Text

IsFill(c) == c \in {32, 10, 9}
RECURSIVE SkipF(_, _)
SkipF(txt, p) == IF p <= Len(txt) /\ IsFill(txt[p]) THEN SkipF(txt, p + 1) ELSE p
TakeN(txt, p, n) == SkipF(txt, p + n)
IsIdent(c) == IsAlphaCode(c) \/ IsDigitCode(c) \/ c = 95
LitAt(txt, p, lit) == p + Len(lit) - 1 <= Len(txt) /\ SubSeq(txt, p, p + Len(lit) - 1) = lit
RECURSIVE IdentEnd(_, _), DigitsEnd(_, _), NumScan(_, _, _)
\* p is at a digit: [p |-> position after the number and its filler, ds |-> the digits]
NumScan(txt, p, acc) == LET q == SkipF(txt, p + 1) IN
  IF q <= Len(txt) /\ IsDigitCode(txt[q]) THEN NumScan(txt, q, Append(acc, txt[p]))
  ELSE [p |-> q, ds |-> Append(acc, txt[p])]
IdentEnd(txt, p) == IF p < Len(txt) /\ IsIdent(txt[p + 1]) THEN IdentEnd(txt, p + 1) ELSE p
DigitsEnd(txt, p) == IF p < Len(txt) /\ IsDigitCode(txt[p + 1]) THEN DigitsEnd(txt, p + 1) ELSE p

PFail(p) == [ok |-> FALSE, far |-> p]
POk(p, out, far) == [ok |-> TRUE, p |-> p, out |-> out, far |-> far]
Leaf(s) == [s |-> s]
IntLeaf(v) == [i |-> v]

RECURSIVE PP(_, _, _), PAll(_, _, _, _, _), PAlt(_, _, _, _), PLits(_, _, _, _)
PLits(txt, ss, k, p) ==
  IF k > Len(ss) THEN PFail(p)
  ELSE IF LitAt(txt, p, ss[k]) THEN POk(TakeN(txt, p, Len(ss[k])), <<Leaf(ss[k])>>, 0)
  ELSE PLits(txt, ss, k + 1, p)
PAll(txt, xs, p, out, far) ==
  IF xs = <<>> THEN POk(p, out, far)
  ELSE LET r == PP(txt, Head(xs), p) IN
       IF r.ok THEN PAll(txt, Tail(xs), r.p, out \o r.out, MaxI(far, r.far))
       ELSE PFail(MaxI(far, r.far))
PAlt(txt, xs, p, far) ==
  IF xs = <<>> THEN PFail(far)
  ELSE LET r == PP(txt, Head(xs), p) IN
       IF r.ok THEN POk(r.p, r.out, MaxI(far, r.far))
       ELSE PAlt(txt, Tail(xs), p, MaxI(far, r.far))
PP(txt, node, p) ==
  CASE node.t = "rule" -> LET r == PP(txt, RingRule(node.n), p) IN
                          IF r.ok THEN POk(r.p, <<[n |-> node.n, c |-> r.out]>>, r.far) ELSE r
    [] node.t = "all" -> PAll(txt, node.xs, p, <<>>, 0)
    [] node.t = "alt" -> PAlt(txt, node.xs, p, 0)
    [] node.t = "opt" -> LET r == PP(txt, node.x, p) IN IF r.ok THEN r ELSE POk(p, <<>>, r.far)
    [] node.t = "fil" -> IF LitAt(txt, p, node.s) THEN POk(TakeN(txt, p, Len(node.s)), <<>>, 0) ELSE PFail(p)
    [] node.t = "lits" -> PLits(txt, node.ss, 1, p)
    [] node.t = "str" -> IF p <= Len(txt) /\ IsIdent(txt[p])
                         THEN LET e == IdentEnd(txt, p) IN POk(TakeN(txt, p, e - p + 1), <<Leaf(SubSeq(txt, p, e))>>, 0)
                         ELSE PFail(p)
    [] node.t = "dig" -> IF p <= Len(txt) /\ IsDigitCode(txt[p])
                         THEN POk(TakeN(txt, p, 1), <<IntLeaf(txt[p] - 48)>>, 0) ELSE PFail(p)
    [] node.t = "num" -> IF p <= Len(txt) /\ IsDigitCode(txt[p])
                         THEN LET r == NumScan(txt, p, <<>>) IN POk(r.p, <<IntLeaf(DecValue(r.ds))>>, 0)
                         ELSE PFail(p)
    [] node.t = "eos" -> IF p > Len(txt) THEN POk(p, <<>>, 0) ELSE PFail(p)

\* parse a whole text: [ok, ast] or [ok = FALSE, far = furthest failure offset (1-based, <= Len+1)]
ParseRing(txt) ==
  LET r == PP(txt, [t |-> "rule", n |-> RingRoot], SkipF(txt, 1)) IN
  IF r.ok THEN [ok |-> TRUE, ast |-> r.out[1]] ELSE [ok |-> FALSE, far |-> r.far]

\* ---- syntax-tree helpers
IsNode(x) == "n" \in DOMAIN x
IsLeafS(x) == "s" \in DOMAIN x
IsLeafI(x) == "i" \in DOMAIN x
Kids(x, name) == SelectSeq(x.c, LAMBDA k : IsNode(k) /\ k.n = name)
HasKid(x, name) == Kids(x, name) # <<>>
Kid(x, name) == Kids(x, name)[1]
StrKids(x) == SelectSeq(x.c, IsLeafS)
IntKids(x) == SelectSeq(x.c, IsLeafI)
=============================================================================
