CONSTANTS
  NT = 2
  WithTriples = TRUE
INIT MInit
NEXT MNext
INVARIANT WellFormed
PROPERTY Atomic
PROPERTY Monotone
POSTCONDITION Post
CHECK_DEADLOCK FALSE
