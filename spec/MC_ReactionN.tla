---------------------------- MODULE MC_ReactionN ----------------------------
(* Rules with several reactants (spec growth beyond C16): each case is a rule *)
(* text and one molecule per reactant.  The product sets are computed with    *)
(* cumulative index shifts and with the (k-1)-only shift; they coincide for   *)
(* one and two reactants (theorem SameUpToTwo), electrons are conserved and   *)
(* nothing outside the match changes (on the combined graph).                 *)
EXTENDS Reaction, Json, IOUtils, TLC

In == JsonDeserialize(IOEnv.VIN)
Cases == In.cases
Read1(text) == LET p == ParseRing(text) IN
   IF ~p.ok THEN [ok |-> FALSE, why |-> "RINGSyntaxError"]
   ELSE IF p.ast.c[1].n # "ReactionRule" THEN [ok |-> FALSE, why |-> "not a rule"]
   ELSE LET r == ReadRule(p.ast.c[1]) IN
        IF r.err # "" THEN [ok |-> FALSE, why |-> r.err] ELSE [ok |-> TRUE, r |-> r]
Result(j, cumulative) == LET f == Read1(Cases[j].rule) ms == [k \in 1..Len(Cases[j].mols) |-> In.mols[Cases[j].mols[k]]] IN
  IF ~f.ok THEN [ok |-> FALSE, why |-> f.why]
  ELSE IF Len(f.r.reactants) # Len(ms) THEN [ok |-> FALSE, why |-> "number of reactants"]
  ELSE [ok |-> TRUE, rs |-> RunRuleN(f.r, ms, cumulative), g0 |-> SideBySide(ms, Len(ms))]
ResTab == TLCEval([j \in 1..Len(Cases) |-> Result(j, TRUE)])
DevTab == TLCEval([j \in 1..Len(Cases) |-> Result(j, FALSE)])

ASSUME SameUpToTwo == \A j \in 1..Len(Cases) : Len(Cases[j].mols) <= 2 => ResTab[j] = DevTab[j]

VARIABLES vcase, vres
Init == vcase = 0 /\ vres = [ok |-> FALSE, why |-> "none"]
Next == vcase = 0 /\ \E j \in 1..Len(Cases) : vcase' = j /\ vres' = ResTab[j]
Conserved == (vcase # 0 /\ vres.ok) => \A x \in vres.rs : ElectronsConserved(vres.g0, x)
NothingElse == (vcase # 0 /\ vres.ok) => \A x \in vres.rs : Untouched(vres.g0, x)
Out(x) == IF IsUnspec(x.g) THEN [m |-> x.m, unspecified |-> TRUE]
          ELSE [m |-> x.m, atoms |-> x.g.atoms,
                bonds |-> {<<bd.a, bd.b, bd.kind>> : bd \in {x.g.bonds[k] : k \in 1..Len(x.g.bonds)}},
                comps |-> Components(x.g)]
Ser(t) == [j \in 1..Len(Cases) |-> IF t[j].ok THEN [ok |-> TRUE, rs |-> {Out(x) : x \in t[j].rs}]
                                   ELSE [ok |-> FALSE, why |-> t[j].why]]
Export == JsonSerialize(IOEnv.VOUT, [res |-> Ser(ResTab), dev |-> Ser(DevTab)])
Post == TLCGet("stats").diameter > 0 /\ Export
=============================================================================
