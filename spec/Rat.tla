-------------------------------- MODULE Rat --------------------------------
(* Exact rationals <<n, d>> (d > 0, lowest terms) over TLC's 32-bit ints.  *)
(* Generators keep numerators small; TLC aborts on overflow (never wraps). *)
EXTENDS Integers, Sequences

\* (no unary minus anywhere in these modules: TLC fails to pre-evaluate and cache
\* constant definitions whose operators use it)
AbsI(x) == IF x < 0 THEN 0 - x ELSE x
RECURSIVE GCD(_, _)
GCD(a, b) == IF b = 0 THEN a ELSE GCD(b, a % b)

RNorm(n, d) ==
  IF n = 0 THEN <<0, 1>>
  ELSE LET s == IF d < 0 THEN 0 - 1 ELSE 1
           g == GCD(AbsI(n), AbsI(d))
       IN <<(s * n) \div g, (s * d) \div g>>
R(n) == <<n, 1>>
RZero == <<0, 1>>
ROne == <<1, 1>>
RAdd(a, b) == RNorm(a[1] * b[2] + b[1] * a[2], a[2] * b[2])
RNeg(a) == <<0 - a[1], a[2]>>
RSub(a, b) == RAdd(a, RNeg(b))
RMul(a, b) == RNorm(a[1] * b[1], a[2] * b[2])
RInv(a) == RNorm(a[2], a[1])
RDiv(a, b) == RMul(a, RInv(b))
RLt(a, b) == a[1] * b[2] < b[1] * a[2]
RLe(a, b) == a[1] * b[2] <= b[1] * a[2]
RAbs(a) == <<AbsI(a[1]), a[2]>>
RIsZero(a) == a[1] = 0
RIsInt(a) == a[2] = 1
RMax(a, b) == IF RLt(a, b) THEN b ELSE a
RMin(a, b) == IF RLt(a, b) THEN a ELSE b
RECURSIVE RPowI(_, _)
RPowI(a, k) == IF k = 0 THEN ROne
               ELSE IF k < 0 THEN RInv(RPowI(a, 0 - k))
               ELSE RMul(a, RPowI(a, k - 1))
\* exact integer square root when it exists, else -1
ISqrt(n) == IF n < 0 THEN 0 - 1
            ELSE LET c == {k \in 0..(IF n < 4 THEN n ELSE n \div 2) : k * k = n}
                 IN IF c = {} THEN 0 - 1 ELSE CHOOSE k \in c : TRUE
RHasSqrt(a) == a[1] >= 0 /\ ISqrt(a[1]) >= 0 /\ ISqrt(a[2]) >= 0
RSqrt(a) == <<ISqrt(a[1]), ISqrt(a[2])>>
RECURSIVE RSum(_)
RSum(s) == IF s = <<>> THEN RZero ELSE RAdd(Head(s), RSum(Tail(s)))
=============================================================================
