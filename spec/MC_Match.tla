------------------------------ MODULE MC_Match ------------------------------
(* C08: fragments x molecules.  The harness supplies fragment texts (printed  *)
(* from generated structures with random layout and labels, plus the test and *)
(* scheme patterns) and molecules as the matcher sees them; TLC parses and    *)
(* reads every text with the TLA+ reader and computes the set of embeddings   *)
(* of every pair.  Sharded (IOEnv.SHARD of IOEnv.NSHARD); cursor machine.     *)
EXTENDS RingMatch, Json, IOUtils, TLC

In == JsonDeserialize(IOEnv.VIN)
Shard == atoi(IOEnv.SHARD)
NShard == atoi(IOEnv.NSHARD)
Pairs == In.pairs                        \* <<fragment index, molecule index>>
MyIdx == TLCEval({j \in 1..Len(Pairs) : j % NShard = Shard})
MyFrags == TLCEval({Pairs[j][1] : j \in MyIdx})
\* every fragment of the shard is parsed and read once
FragTab == TLCEval([f \in MyFrags |->
   LET p == ParseRing(In.frags[f]) IN
   IF ~p.ok THEN [ok |-> FALSE, why |-> "syntax"]
   ELSE LET q == ReadQuery(p.ast.c[1], "FragmentName") IN
        IF q.err # "" THEN [ok |-> FALSE, why |-> q.err] ELSE [ok |-> TRUE, q |-> q]])
MolOf(j) == In.mols[j]
Result(j) == LET f == FragTab[Pairs[j][1]] IN
  IF ~f.ok THEN [ok |-> FALSE, why |-> f.why] ELSE [ok |-> TRUE, ms |-> Matches(f.q, MolOf(Pairs[j][2]))]
ResTab == TLCEval([j \in MyIdx |-> Result(j)])

VARIABLES vcase, vres
Init == vcase = 0 /\ vres = [ok |-> FALSE, why |-> "none"]
Next == vcase = 0 /\ \E j \in MyIdx : vcase' = j /\ vres' = ResTab[j]
\* every embedding is injective, of the fragment's length, and inside the molecule
WellFormedMatches == (vcase # 0 /\ vres.ok) =>
  \A m \in vres.ms : /\ Len(m) = Len(FragTab[Pairs[vcase][1]].q.atoms)
                     /\ \A a \in 1..Len(m), b \in 1..Len(m) : (a # b => m[a] # m[b])
                     /\ \A a \in 1..Len(m) : m[a] \in 1..NAtoms(MolOf(Pairs[vcase][2]))
\* model theorem (per shard): negating a constraint complements the match set of a one-atom fragment
Export == JsonSerialize(IOEnv.VOUT, [res |-> [j \in MyIdx |-> ResTab[j]]])
Post == TLCGet("stats").diameter > 0 /\ Export
=============================================================================
