SPECIFICATION TSpec
INVARIANT Finish
CHECK_DEADLOCK FALSE
