#!/usr/bin/env python3
"""Hand transcription of the RING grammar (Rangarajan et al. 2012/2014 as adopted by
pgradd, strict grammar + the documented extensions: quadruple bonds, radical-electron
and ring-count constraints, radical/charge edits, extra atom suffixes, stereo double
bonds) into PEG data for RingParser.tla.  Run: python3 gen_ringgrammar.py > RingGrammar.tla
Notation: R('X') rule reference, All(...), Alt(...), Opt(x), F('text') filler (matched,
no output), L([...]) literal alternatives (longest first, output = the literal),
STR identifier [A-Za-z0-9_]+, DIG one digit, NUM digits, EOS end of input."""


def codes(s):
    return '<<' + ', '.join(str(ord(c)) for c in s) + '>>'


class N(object):
    def __init__(self, tla):
        self.tla = tla


def R(n): return N('[t |-> "rule", n |-> "%s"]' % n)
def All(*xs): return N('[t |-> "all", xs |-> <<%s>>]' % ', '.join(x.tla for x in xs))
def Alt(*xs): return N('[t |-> "alt", xs |-> <<%s>>]' % ', '.join(x.tla for x in xs))
def Opt(x): return N('[t |-> "opt", x |-> %s]' % x.tla)
def F(s): return N('[t |-> "fil", s |-> %s]' % codes(s))


def L(ss):
    ss = sorted(ss, key=len, reverse=True)
    return N('[t |-> "lits", ss |-> <<%s>>]' % ', '.join(codes(s) for s in ss))


STR = N('[t |-> "str"]')
DIG = N('[t |-> "dig"]')
NUM = N('[t |-> "num"]')
EOS = N('[t |-> "eos"]')

BOND = ['single', 'double', 'triple', 'quadruple', 'ring', 'nonring', 'aromatic', 'any', 'strong', 'partial']
G = {
 'RINGInput': All(Alt(R('Fragment'), R('ReactionRule')), EOS),
 'Fragment': All(R('Prefix'), F('fragment'), R('FragmentName'), F('{'), R('MolQuery'), F('}')),
 'FragmentName': STR,
 'MolQuery': All(R('Atom'), Opt(R('AtomChain'))),
 'Prefix': All(Opt(L(['positive', 'negative', 'neutral'])), Opt(L(['aromatic', 'olefinic', 'paraffinic'])),
               Opt(L(['cyclic', 'linear']))),
 'Atom': All(R('AtomType'), F('labeled'), R('AtomLabel'), Opt(All(F('{'), R('AtomConstraintChain'), F('}')))),
 'AtomType': All(Opt(R('AtomPrefix')), R('Symbols'), Opt(R('AtomSuffix'))),
 'AtomPrefix': L(['aromatic', 'nonaromatic', 'ringatom', 'nonringatom', 'allylic']),
 'Symbols': Alt(L(['any atom', '$', 'heteroatom', '&', 'heavy atom', 'X']), STR),
 'AtomSuffix': L(['+', '-', '.', ':', '+.', '-.', '*', '?', ':.']),
 'AtomLabel': STR,
 'AtomConstraintChain': All(R('AtomConstraints'), Opt(All(F(','), R('AtomConstraintChain')))),
 'AtomConstraints': Alt(R('AtomConstraintConnectivity'), R('AtomConstraintRing'), R('AtomConstraintRadical'),
                        R('AtomConstraintNRing')),
 'AtomConstraintConnectivity': All(Opt(R('Boolean')), F('connected to'), Opt(R('ConstraintNumber')),
                                   Alt(R('GroupName'), R('AtomType')),
                                   Opt(All(F('with'), R('BondType'), F('bond')))),
 'AtomConstraintRing': All(Opt(R('Boolean')), F('in ring of size'), R('ConstraintNumber')),
 'AtomConstraintRadical': All(Opt(R('Boolean')), F('has'), R('ConstraintNumber'), F('radical electrons')),
 'AtomConstraintNRing': All(Opt(R('Boolean')), F('in'), R('ConstraintNumber'), F('ring')),
 'Boolean': L(['!', '||', '&&', '+', '-']),
 'ConstraintNumber': All(Opt(L(['>', '=', '<', '>=', '<='])), DIG),
 'GroupName': All(F('group'), STR),
 'BondType': L(BOND),
 'AtomChain': All(Alt(R('BondedAtom'), R('RingBond'), R('StereoDoubleBond')), Opt(R('AtomChain'))),
 'BondedAtom': All(R('AtomType'), F('labeled'), R('AtomLabel'), R('BondType'), F('bond to'), R('AtomLabel'),
                   Opt(All(F('{'), R('AtomConstraintChain'), F('}')))),
 'RingBond': All(F('ringbond'), R('AtomLabel'), R('BondType'), F('bond to'), R('AtomLabel')),
 'StereoDoubleBond': All(F('stereo double bond'), R('AtomLabel'), Opt(R('Boolean')), R('DoubleBondStereoType'),
                         F('to'), R('AtomLabel'), F('for double bond between'), R('AtomLabel'), F('and'),
                         R('AtomLabel')),
 'DoubleBondStereoType': L(['cis', 'trans', 'notspecified']),
 'ReactionRule': All(F('rule'), R('ReactionName'), F('{'), R('Reactants'), Opt(R('Constraints')),
                     R('TransformationChain'), F('}')),
 'ReactionName': STR,
 'Reactants': All(Alt(R('ReactantQuery'), R('ReactantGroup'), R('Duplicates')), Opt(R('Reactants'))),
 'ReactantQuery': All(R('Prefix'), F('reactant'), R('ReactantName'), F('{'), R('MolQuery'), F('}')),
 'ReactantName': STR,
 'ReactantGroup': All(F('reactant'), R('ReactantName'), R('GroupName'), F('('), R('LabelMapping'), F(')')),
 'Duplicates': All(F('reactant'), R('ReactantName'), F('duplicates'), R('ReactantName'), F('('),
                   R('LabelMapping'), F(')')),
 'LabelMapping': All(R('AtomLabel'), F('=>'), R('AtomLabel'), Opt(All(F(','), R('LabelMapping')))),
 'Constraints': All(F('constraints{'), Opt(R('FragmentChain')), R('ConstraintChain'), F('}')),
 'FragmentChain': All(R('Fragment'), Opt(R('FragmentChain'))),
 'ConstraintChain': All(Opt(R('Boolean')), Alt(R('BranchConstraint'), R('Constraint')),
                        Opt(All(R('Boolean'), R('ConstraintChain')))),
 'BranchConstraint': All(F('('), Alt(R('ConstraintChain'), R('Constraint')), F(')')),
 'Constraint': Alt(R('C_Size'), R('C_Charge'), R('C_Cyclic'), R('C_Characteristic'), R('C_Fragment'), R('C_Group')),
 'C_Size': All(R('SizeChain'), R('ConstraintNumber')),
 'SizeChain': All(R('Size'), Opt(All(R('Boolean'), R('SizeChain')))),
 'Size': All(R('ReactantName'), F('.size')),
 'C_Charge': All(R('ChargeChain'), R('ConstraintNumber')),
 'ChargeChain': All(R('Charge'), Opt(All(R('Boolean'), R('ChargeChain')))),
 'Charge': All(R('ReactantName'), F('.charge')),
 'C_Cyclic': All(R('ReactantName'), F('is cyclic')),
 'C_Characteristic': Alt(R('C_Aromatic'), R('C_Oxygenate'), R('C_Heteroaromatic'), R('C_Bridged'),
                         R('C_DeclaredCharacteristic'), R('C_Smiles'), R('C_Formula')),
 'C_Aromatic': All(R('ReactantName'), F('is aromatic')),
 'C_Oxygenate': All(R('ReactantName'), F('is oxygenate')),
 'C_Heteroaromatic': All(R('ReactantName'), F('is heteroaromatic')),
 'C_Bridged': All(R('ReactantName'), F('is bridged')),
 'C_DeclaredCharacteristic': All(R('ReactantName'), F('is'), R('CharacteristicName')),
 'CharacteristicName': STR,
 'C_Smiles': All(R('ReactantName'), F('is'), R('Smiles')),
 'Smiles': STR,
 'C_Formula': All(R('ReactantName'), F('.formula is'), R('MolecularFormulaChain')),
 'MolecularFormulaChain': All(R('ElementSymbol'), Opt(NUM), Opt(R('MolecularFormulaChain'))),
 'ElementSymbol': STR,
 'C_Fragment': All(R('ReactantName'), F('contains'), Opt(All(R('ConstraintNumber'), F('of'))), R('FragmentName')),
 'C_Group': All(R('ReactantName'), F('contains'), Opt(All(R('ConstraintNumber'), F('of'))), Opt(F('group')),
                R('GroupName')),
 'TransformationChain': All(R('ConnectivityChange'), Opt(R('TransformationChain'))),
 'ConnectivityChange': Alt(R('BondForm'), R('BondBreak'), R('BondModify'), R('BondDecrease'), R('BondIncrease'),
                           R('AtomTypeModify'), R('RadicalModify'), R('RadicalIncrease'), R('RadicalDecrease'),
                           R('ChargeIncrease'), R('ChargeDecrease')),
 'BondForm': All(F('form'), Opt(R('BondType')), F('bond'), F('('), R('AtomLabel'), F(','), R('AtomLabel'), F(')')),
 'BondBreak': All(F('break'), Opt(R('BondType')), F('bond'), F('('), R('AtomLabel'), F(','), R('AtomLabel'), F(')')),
 'BondModify': All(F('modify bond'), F('('), R('AtomLabel'), F(','), R('AtomLabel'), F(','), R('BondType'), F(')')),
 'BondIncrease': All(F('increase bond order'), F('('), R('AtomLabel'), F(','), R('AtomLabel'), F(')')),
 'BondDecrease': All(F('decrease bond order'), F('('), R('AtomLabel'), F(','), R('AtomLabel'), F(')')),
 'AtomTypeModify': All(F('modify atomtype'), F('('), R('AtomLabel'), F(','), R('AtomType'), F(')')),
 'RadicalModify': All(F('modify number of radical'), F('('), R('AtomLabel'), F(','), NUM, F(')')),
 'RadicalIncrease': All(F('increase number of radical'), F('('), R('AtomLabel'), F(')')),
 'RadicalDecrease': All(F('decrease number of radical'), F('('), R('AtomLabel'), F(')')),
 'ChargeIncrease': All(F('increase formal charge'), F('('), R('AtomLabel'), F(')')),
 'ChargeDecrease': All(F('decrease formal charge'), F('('), R('AtomLabel'), F(')')),
}

print('----------------------------- MODULE RingGrammar -----------------------------')
print('(* GENERATED by gen_ringgrammar.py from its hand-written transcription of the  *)')
print('(* RING grammar (PEG data: rule references, sequences, ordered alternatives,   *)')
print('(* options, fillers, literal sets (longest first), identifiers, digits).       *)')
print('RingRuleNames == {' + ', '.join('"%s"' % n for n in G) + '}')
print('RingRule(name) ==')
first = True
for n, node in G.items():
    print('  %s name = "%s" -> %s' % ('CASE' if first else '  []', n, node.tla))
    first = False
print('RingRoot == "RINGInput"')
print('=============================================================================')
