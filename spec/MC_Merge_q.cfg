CONSTANTS
  NT = 2
  WithTriples = FALSE
INIT MInit
NEXT MNext
INVARIANT WellFormed
PROPERTY Atomic
PROPERTY Monotone
POSTCONDITION Post
CHECK_DEADLOCK FALSE
