--------------------------- MODULE Trace_Lifecycle ---------------------------
(* Trace validation for C15: histories executed on real library objects are   *)
(* replayed through the actions of Lifecycle.tla (which must be enabled: a    *)
(* disabled action means the driver produced an impossible history).  For     *)
(* every event TLC emits the query key of the ideal design and the key the    *)
(* known hidden state would produce; the harness compares the observed result *)
(* with the single-operation fresh-process answer for the ideal key.          *)
EXTENDS Lifecycle, Json, IOUtils, SequencesExt

In == JsonDeserialize(IOEnv.VIN)
Traces == In.traces

VARIABLES vtid, vpos, vkeys
tvars == <<vlibs, vdecs, vests, vobs, vtid, vpos, vkeys>>

TInit == LInit /\ vtid = 1 /\ vpos = 1 /\ vkeys = <<>>

Act(e) ==
  \/ e.op = "load" /\ Load(e.h, e.L)
  \/ e.op = "update" /\ Update(e.h, e.h2, e.ow)
  \/ e.op = "decompose" /\ Decompose(e.h, e.m)
  \/ e.op = "estimate" /\ Estimate(e.h, e.d)
  \/ e.op = "eval" /\ Eval(e.e, e.p, e.t, e.sel)
  \/ e.op = "evalgroup" /\ EvalGroup(e.h, e.g, e.p, e.t)

TStep ==
  /\ vtid <= Len(Traces)
  /\ IF vpos > Len(Traces[vtid]) THEN
        /\ vtid' = vtid + 1 /\ vpos' = 1 /\ UNCHANGED vkeys
        /\ vlibs' = [h \in Handles |-> [srcs |-> <<>>, last |-> None]]
        /\ vdecs' = <<>> /\ vests' = <<>> /\ vobs' = [key |-> <<"init">>, devkey |-> <<"init">>]
     ELSE /\ Act(Traces[vtid][vpos])
          /\ vpos' = vpos + 1 /\ vtid' = vtid
          /\ vkeys' = Append(vkeys, vobs')
TSpec == TInit /\ [][TStep]_tvars
Done == vtid > Len(Traces)
TraceReadOnly == [][vtid' = vtid => ReadOnlyStep]_tvars
Finish == Done => JsonSerialize(IOEnv.VOUT, [keys |-> vkeys, done |-> TRUE])
=============================================================================
