CONSTANTS
  ExpNums <- ExpNumsQ
  MaxActive = 3
SPECIFICATION Spec
INVARIANT RoundTrip
INVARIANT BuildDenotes
INVARIANT ImplRoundTrip
INVARIANT SameWhenShallow
POSTCONDITION Post
CHECK_DEADLOCK FALSE
