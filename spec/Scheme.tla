-------------------------------- MODULE Scheme --------------------------------
(* C02 / C03 / C04: what a group-additivity scheme file declares.               *)
(* A scheme is data:                                                            *)
(*   patterns : Seq([center, periph, q])  centre patterns; the FIRST labelled   *)
(*              atom of q is the centre; names are texts, "none" = contributes  *)
(*              nothing                                                         *)
(*   others   : Seq([name, q])            correction descriptors                *)
(*   remaps   : Seq([src, rules : Seq(<<num, den, target>>)])                   *)
(* Decomposition of a molecule graph (hydrogens explicit, Kekule form):         *)
(*   Aromatise      every six-membered all-carbon ring with alternating single  *)
(*                  and double bonds becomes aromatic (atoms and bonds), ring   *)
(*                  by ring in the order given                                  *)
(*   Centres        each atom must be the centre of exactly one pattern         *)
(*   Groups         an atom with a named centre contributes the group           *)
(*                  Canon(centre, bag of its neighbours' peripheral names)      *)
(*   Others         each descriptor counts the distinct SETS of matched atoms   *)
(*   Remap          one linear substitution step                                *)
(* The result is a bag name -> rational count, or the pattern-match error.      *)
EXTENDS RingMatch, GroupNameDef, Rat

T_none == <<110, 111, 110, 101>>

\* ------------------------------------------------------------------ aromatisation
RingBondKind(mol, r, k) == TheBond(mol, r[k], r[(k % 6) + 1]).kind
Alternating(mol, r) ==
  \/ \A k \in 1..6 : RingBondKind(mol, r, k) = (IF k % 2 = 1 THEN "SINGLE" ELSE "DOUBLE")
  \/ \A k \in 1..6 : RingBondKind(mol, r, k) = (IF k % 2 = 1 THEN "DOUBLE" ELSE "SINGLE")
BensonRing(mol, r) == Len(r) = 6 /\ (\A k \in 1..6 : mol.atoms[r[k]].z = 6) /\ Alternating(mol, r)
AromatiseRing(mol, r) ==
  LET inring == {r[k] : k \in 1..6}
      ringbond(bd) == \E k \in 1..6 : {bd.a, bd.b} = {r[k], r[(k % 6) + 1]} IN
  [mol EXCEPT !.atoms = [a \in 1..Len(mol.atoms) |-> IF a \in inring THEN [mol.atoms[a] EXCEPT !.arom = TRUE] ELSE mol.atoms[a]],
              !.bonds = [k \in 1..Len(mol.bonds) |-> IF ringbond(mol.bonds[k]) THEN [mol.bonds[k] EXCEPT !.kind = "AROMATIC"] ELSE mol.bonds[k]]]
RECURSIVE AromatiseFrom(_, _)
AromatiseFrom(mol, k) == IF k > Len(mol.rings) THEN mol
                         ELSE AromatiseFrom(IF BensonRing(mol, mol.rings[k]) THEN AromatiseRing(mol, mol.rings[k]) ELSE mol, k + 1)
Aromatise(mol) == AromatiseFrom(mol, 1)

\* ------------------------------------------------------------------ centres
CentresOf(scheme, mol) ==      \* atom -> set of pattern indices whose centre it can be
  LET firsts == [p \in 1..Len(scheme.patterns) |-> {m[1] : m \in Matches(scheme.patterns[p].q, mol)}] IN
  [a \in 1..NAtoms(mol) |-> {p \in 1..Len(scheme.patterns) : a \in firsts[p]}]
Neighbours(mol, a) == [k \in 1..Len(SetToSeq(BondsOf(mol, a))) |-> Other(mol.bonds[SetToSeq(BondsOf(mol, a))[k]], a)]

\* ------------------------------------------------------------------ bags
BagPlus(bag, name, q) == IF name \in DOMAIN bag THEN [bag EXCEPT ![name] = RAdd(bag[name], q)]
                        ELSE [x \in DOMAIN bag \cup {name} |-> IF x = name THEN q ELSE bag[x]]
RECURSIVE BagFromSeq(_, _)
BagFromSeq(names, bag) == IF names = <<>> THEN bag ELSE BagFromSeq(Tail(names), BagPlus(bag, Head(names), ROne))
RemapOf(scheme, name) == LET ks == {k \in 1..Len(scheme.remaps) : scheme.remaps[k].src = name} IN
                         IF ks = {} THEN <<>> ELSE scheme.remaps[CHOOSE k \in ks : TRUE].rules
RECURSIVE AddRules(_, _, _)
AddRules(bag, rules, n) == IF rules = <<>> THEN bag
                           ELSE AddRules(BagPlus(bag, rules[1][3], RMul(n, <<rules[1][1], rules[1][2]>>)), Tail(rules), n)
\* one substitution step over the names present before the step (remaps are chain-free)
Remap(scheme, bag) ==
  LET srcs == SetToSeq({x \in DOMAIN bag : RemapOf(scheme, x) # <<>>})
      RECURSIVE Go(_, _)
      Go(b, todo) == IF todo = <<>> THEN b
                     ELSE LET x == Head(todo) n == b[x]
                              b1 == [y \in DOMAIN b \ {x} |-> b[y]] IN
                          Go(AddRules(b1, RemapOf(scheme, x), n), Tail(todo))
  IN Go(bag, srcs)
BagJoin(b1, b2) == [x \in DOMAIN b1 \cup DOMAIN b2 |->
                       RAdd(IF x \in DOMAIN b1 THEN b1[x] ELSE RZero, IF x \in DOMAIN b2 THEN b2[x] ELSE RZero)]

\* ------------------------------------------------------------------ decomposition
Decompose(scheme, molK) ==
  LET mol == Aromatise(molK)
      cents == CentresOf(scheme, mol) IN
  IF \E a \in 1..NAtoms(mol) : Cardinality(cents[a]) # 1
  THEN [ok |-> FALSE, cls |-> "PatternMatchError",
        atoms |-> {a \in 1..NAtoms(mol) : Cardinality(cents[a]) # 1}, mol |-> mol]
  ELSE LET pat(a) == scheme.patterns[CHOOSE p \in cents[a] : TRUE]
           groupNames == [k \in 1..Len(SelectSeq([a \in 1..NAtoms(mol) |-> a], LAMBDA a : pat(a).center # T_none)) |->
                LET a == SelectSeq([x \in 1..NAtoms(mol) |-> x], LAMBDA x : pat(x).center # T_none)[k]
                    nb == Neighbours(mol, a) IN
                Canon(pat(a).center, SelectSeq([j \in 1..Len(nb) |-> pat(nb[j]).periph], LAMBDA p : p # T_none))]
           groups == Remap(scheme, BagFromSeq(groupNames, <<>>))
           RECURSIVE Others(_, _)
           Others(k, bag) == IF k > Len(scheme.others) THEN bag
                             ELSE LET n == Cardinality({{m[j] : j \in 1..Len(m)} : m \in Matches(scheme.others[k].q, mol)}) IN
                                  Others(k + 1, IF n = 0 THEN bag ELSE BagPlus(bag, scheme.others[k].name, R(n)))
           descs == Remap(scheme, Others(1, <<>>))
       IN [ok |-> TRUE, bag |-> BagJoin(groups, descs), mol |-> mol,
           centres |-> [a \in 1..NAtoms(mol) |-> [c |-> pat(a).center, p |-> pat(a).periph]]]
=============================================================================
