CONSTANTS
  MaxLen = 5
  Guarded = TRUE
SPECIFICATION Spec
INVARIANT Bounded
INVARIANT TakenIsMaximalRun
PROPERTY Terminates
CHECK_DEADLOCK FALSE
