----------------------------- MODULE MC_Network -----------------------------
(* All successor relations on a small species set (every species reacts, per *)
(* rule, to a sequence of at most MaxProd distinct species), all non-empty    *)
(* duplicate-free seed lists; safety and termination of the work-list         *)
(* machine.                                                                   *)
EXTENDS Network, SequencesExt

CONSTANTS MaxProd
ProdSeqs == {s \in UNION {[1..n -> Species] : n \in 0..MaxProd} : NoDup(s)}
Succs == [1..NRules -> [Species -> ProdSeqs]]
SeedSeqs == {s \in UNION {[1..n -> Species] : n \in 1..Cardinality(Species)} : NoDup(s)}

VARIABLE vseeds
MInit == \E seeds \in SeedSeqs, succ \in Succs : NInit(seeds, succ) /\ vseeds = seeds
MNext == NNext /\ UNCHANGED vseeds
MSpec == MInit /\ [][MNext]_<<nvars, vseeds>> /\ WF_<<nvars, vseeds>>(MNext)

Target == Closure(SeqSet(vseeds), vsucc)
\* every seed and only closure members; complete and duplicate free at the end
Within == SeqSet(vproc) \cup SeqSet(vunproc) \cup (IF vcur = 0 THEN {} ELSE {vcur}) \subseteq Target
Complete == Finished => (SeqSet(vproc) = Target /\ NoDup(vproc))
NoDupInv == NoDuplicates
Terminates == <>Finished
=============================================================================
