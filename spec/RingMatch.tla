------------------------------ MODULE RingMatch ------------------------------
(* C08 (and C02-C04, C16): the denotation of a RING fragment on a molecule.    *)
(* A molecule is the graph the matcher sees (hydrogens explicit):              *)
(*   atoms : Seq([z, q, rad, arom, ring])   atomic number, formal charge,      *)
(*           radical electrons, aromatic flag, in-a-ring flag                  *)
(*   bonds : Seq([a, b, kind, ring])  kind in SINGLE DOUBLE TRIPLE QUADRUPLE   *)
(*           AROMATIC DATIVE ZERO OTHER ...                                    *)
(*   rings : Seq(Seq(atom))           the ring list (SSSR) of the toolkit      *)
(*   stereo: Seq([a, b, st, sa])      double bonds with a stereo tag Z / E and *)
(*           their two reference atoms                                         *)
(* A match assigns distinct molecule atoms to the fragment's atoms, in         *)
(* declaration order, such that every atom type, bond, constraint and the      *)
(* molecule-level prefix hold.  Matches(q, mol) is the set of all of them.     *)
EXTENDS RingReader

NAtoms(mol) == Len(mol.atoms)
BondIdx(mol, a, b) == {k \in 1..Len(mol.bonds) : {mol.bonds[k].a, mol.bonds[k].b} = {a, b}}
HasBond(mol, a, b) == BondIdx(mol, a, b) # {}
TheBond(mol, a, b) == mol.bonds[CHOOSE k \in BondIdx(mol, a, b) : TRUE]
BondsOf(mol, a) == {k \in 1..Len(mol.bonds) : a \in {mol.bonds[k].a, mol.bonds[k].b}}
Other(bd, a) == IF bd.a = a THEN bd.b ELSE bd.a
RingsWith(mol, a) == {k \in 1..Len(mol.rings) : \E j \in 1..Len(mol.rings[k]) : mol.rings[k][j] = a}

\* ------------------------------------------------------------------ numbers
CNHolds(cn, v) == CASE cn.op = T_Eq -> v = cn.n [] cn.op = T_Gt -> v > cn.n [] cn.op = T_Lt -> v < cn.n
                    [] cn.op = T_Ge -> v >= cn.n [] cn.op = T_Le -> v <= cn.n

\* ------------------------------------------------------------------ bonds
BondKindOK(kind, bd) ==
  CASE kind = T_single -> bd.kind = "SINGLE"
    [] kind = T_double -> bd.kind = "DOUBLE"
    [] kind = T_triple -> bd.kind = "TRIPLE"
    [] kind = T_quadruple -> bd.kind = "QUADRUPLE"
    [] kind = T_aromatic -> bd.kind = "AROMATIC"
    [] kind = T_any -> TRUE
    [] kind = T_ring -> bd.ring
    [] kind = T_nonring -> ~bd.ring
    [] kind = T_strong -> bd.kind \in {"DOUBLE", "TRIPLE", "QUADRUPLE", "AROMATIC"}
    [] kind = T_partial -> bd.kind \in {"DATIVE", "OTHER", "ZERO"}

\* ------------------------------------------------------------------ atom types
SymbolOK(sym, at) ==
  IF sym \in {T_AnyAtom, T_Dollar} THEN at.z > 0
  ELSE IF sym \in {T_Hetero, T_Amp} THEN at.z \in {7, 8, 15, 16}
  ELSE IF sym \in {T_HeavyAtom, T_X} THEN at.z > 1
  ELSE IF sym = T_M THEN at.z > 19
  ELSE at.z = AtomicNumber(sym)
SuffixOK(suf, at) ==
  CASE suf = <<>> -> at.q = 0 /\ at.rad = 0
    [] suf = T_Plus -> at.q = 1
    [] suf = T_Minus -> at.q = 0 - 1
    [] suf = T_Dot -> at.rad = 1
    [] suf = T_Colon -> at.rad = 2
    [] suf = T_ColonDot -> at.rad = 3
    [] suf = T_PlusDot -> at.q = 1 /\ at.rad = 1
    [] suf = T_MinusDot -> at.q = 0 - 1 /\ at.rad = 1
    [] suf = T_Quest -> TRUE
\* "allylic" (FROZEN-FROM-IMPL: the atom carries a double bond)
PrefixOK(pre, mol, a) ==
  CASE pre = <<>> -> TRUE
    [] pre = T_aromatic -> mol.atoms[a].arom
    [] pre = T_nonaromatic -> ~mol.atoms[a].arom
    [] pre = T_ringatom -> mol.atoms[a].ring
    [] pre = T_nonringatom -> ~mol.atoms[a].ring
    [] pre = T_allylic -> \E k \in BondsOf(mol, a) : mol.bonds[k].kind = "DOUBLE"
TypeOK(ty, mol, a) == SymbolOK(ty.sym, mol.atoms[a]) /\ SuffixOK(ty.suffix, mol.atoms[a]) /\ PrefixOK(ty.prefix, mol, a)

\* ------------------------------------------------------------------ constraints
ConstraintHolds(c, mol, a) ==
  LET plain ==
    CASE c.kind = "conn" ->
           CNHolds(c.cn, Cardinality({k \in BondsOf(mol, a) :
                      TypeOK(c.nb, mol, Other(mol.bonds[k], a)) /\ BondKindOK(c.bond, mol.bonds[k])}))
      [] c.kind = "ringsize" -> \E k \in RingsWith(mol, a) : CNHolds(c.cn, Len(mol.rings[k]))
      [] c.kind = "radical" -> CNHolds(c.cn, mol.atoms[a].rad)
      [] c.kind = "nring" -> CNHolds(c.cn, Cardinality(RingsWith(mol, a)))
  IN IF c.neg THEN ~plain ELSE plain
AtomOK(qa, mol, a) == TypeOK(qa.type, mol, a) /\ \A k \in 1..Len(qa.cons) : ConstraintHolds(qa.cons[k], mol, a)

\* ------------------------------------------------------------------ molecule prefix
TotalCharge(mol) == LET RECURSIVE S(_)
                        S(k) == IF k = 0 THEN 0 ELSE mol.atoms[k].q + S(k - 1)
                    IN S(NAtoms(mol))
Olefinic(mol) == \E k \in 1..Len(mol.bonds) : mol.bonds[k].kind = "DOUBLE" /\ mol.atoms[mol.bonds[k].a].z = 6
                                              /\ mol.atoms[mol.bonds[k].b].z = 6
MolPrefixOK(p, mol) ==
  CASE p = T_positive -> TotalCharge(mol) = 1
    [] p = T_negative -> TotalCharge(mol) = 0 - 1
    [] p = T_neutral -> TotalCharge(mol) = 0
    [] p = T_aromatic -> \E k \in 1..NAtoms(mol) : mol.atoms[k].arom
    [] p = T_olefinic -> Olefinic(mol)
    [] p = T_paraffinic -> ~Olefinic(mol)
    [] p = T_cyclic -> Len(mol.rings) > 0
    [] p = T_linear -> Len(mol.rings) = 0

\* ------------------------------------------------------------------ stereo (FROZEN-FROM-IMPL)
\* the tag of the double bond c=d as seen from a and b: swapped when exactly one of a, b is a
\* reference atom of the tag
StereoHolds(s, mol, m) ==
  LET c == m[s.c] d == m[s.d]
      tags == {k \in 1..Len(mol.stereo) : {mol.stereo[k].a, mol.stereo[k].b} = {c, d}}
      tag == IF tags = {} THEN "NONE" ELSE mol.stereo[CHOOSE k \in tags : TRUE].st
      refs == IF tags = {} THEN {} ELSE LET x == mol.stereo[CHOOSE k \in tags : TRUE] IN {x.sa[1], x.sa[2]}
      nmatch == Cardinality(refs \cap {m[s.a], m[s.b]})
      seen == IF tag = "NONE" \/ nmatch # 1 THEN tag ELSE (IF tag = "Z" THEN "E" ELSE "Z")
      want == CASE s.kind = T_cis -> "Z" [] s.kind = T_trans -> "E" [] s.kind = T_notspecified -> "NONE"
  IN IF s.neg THEN seen # want ELSE seen = want

\* ------------------------------------------------------------------ embeddings
\* the bond that introduces fragment atom i (<<>> for the first atom and for ring closures)
IntroBond(q, i) == LET ks == {k \in 1..Len(q.bonds) : q.bonds[k].a = i /\ q.bonds[k].b < i} IN
                   IF ks = {} THEN <<>> ELSE <<q.bonds[CHOOSE k \in ks : \A j \in ks : k <= j]>>
\* all declared bonds among the first i fragment atoms hold under partial assignment m
BondsOKUpTo(q, mol, m, i) ==
  \A k \in 1..Len(q.bonds) : (q.bonds[k].a <= i /\ q.bonds[k].b <= i) =>
     (HasBond(mol, m[q.bonds[k].a], m[q.bonds[k].b]) /\ BondKindOK(q.bonds[k].kind, TheBond(mol, m[q.bonds[k].a], m[q.bonds[k].b])))
RECURSIVE Extend(_, _, _, _)
Extend(q, mol, m, i) ==        \* m assigns fragment atoms 1..i-1; returns the set of complete assignments
  IF i > Len(q.atoms) THEN {m}
  ELSE LET ib == IntroBond(q, i)
           cands == IF ib = <<>> THEN 1..NAtoms(mol)
                    ELSE {Other(mol.bonds[k], m[ib[1].b]) : k \in BondsOf(mol, m[ib[1].b])}
           ok == {a \in cands : /\ \A j \in 1..(i - 1) : m[j] # a
                                /\ AtomOK(q.atoms[i], mol, a)
                                /\ BondsOKUpTo(q, mol, Append(m, a), i)}
       IN UNION {Extend(q, mol, Append(m, a), i + 1) : a \in ok}
Matches(q, mol) ==
  IF \E k \in 1..Len(q.prefix) : ~MolPrefixOK(q.prefix[k], mol) THEN {}
  ELSE {m \in Extend(q, mol, <<>>, 1) : \A k \in 1..Len(q.stereo) : StereoHolds(q.stereo[k], mol, m)}
=============================================================================
