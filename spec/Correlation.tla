----------------------------- MODULE Correlation -----------------------------
(* The correlation life cycle as a state machine: construct once, evaluate    *)
(* any number of times (definitions and meaning: CorrelationDef.tla).         *)
EXTENDS CorrelationDef

\* ---------------------------------------------------------------- state machine
VARIABLES vcorr,   \* the constructed correlation ([ok |-> FALSE] before / on failure)
          vout     \* outcome of the last evaluation
cvars == <<vcorr, vout>>
NoCorr == [ok |-> FALSE, cls |-> "none"]
CInit == vcorr = NoCorr /\ vout = [k |-> "none"]
DoConstruct(tsSeq, P, tref, h, s, rng) ==
  /\ vcorr' = Construct(tsSeq, P, tref, h, s, rng) /\ vout' = [k |-> "none"]
DoEval(prop, t) == vcorr.ok /\ vout' = Eval(vcorr.c, prop, t) /\ UNCHANGED vcorr
=============================================================================
