INIT Init
NEXT Next
INVARIANT Structure
PROPERTY RatioLaw
CHECK_DEADLOCK FALSE
