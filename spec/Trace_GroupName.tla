--------------------------- MODULE Trace_GroupName ---------------------------
(* Trace validation for C19: events recorded from pgradd's Group, dict and  *)
(* GroupLibrary are consumed one by one by the actions of GroupName; after  *)
(* every event the observed outcome and the projected dictionary state must *)
(* be the ones the specification produces.                                  *)
EXTENDS GroupName, Json, IOUtils

In == JsonDeserialize(IOEnv.VIN)
Traces == In.traces

VARIABLES tid, pos, skip, bad, nev
tvars == <<table, out, tid, pos, skip, bad, nev>>

ToRef(r) == IF r.kind = "ctor" THEN [kind |-> "ctor", csg |-> r.csg, psgs |-> r.psgs]
            ELSE [kind |-> r.kind, text |-> r.text]

StateOf(t) == {<<k, t[k]>> : k \in DOMAIN t}
LoggedState(e) == {<<e.state[j][1], e.state[j][2]>> : j \in 1..Len(e.state)}

ObsOK(e, o, t) ==
  /\ e.obs.kind = o.kind
  /\ o.kind = "error" => e.obs.cls = o.cls
  /\ o.kind = "hit" => e.obs.v = o.v
  /\ o.kind = "cmp" => /\ e.obs.eq = o.eq /\ e.obs.ne = o.ne
                       /\ (o.eq => e.obs.hasheq)
                       /\ e.obs.req = o.eq       \* reflected comparison agrees
  /\ LoggedState(e) = StateOf(t)

TInit == GInit /\ tid = 1 /\ pos = 1 /\ skip = FALSE /\ bad = {} /\ nev = 0

TStep ==
  /\ tid <= Len(Traces)
  /\ IF skip \/ pos > Len(Traces[tid]) THEN
        /\ tid' = tid + 1 /\ pos' = 1 /\ skip' = FALSE
        /\ table' = <<>> /\ out' = [kind |-> "init"] /\ UNCHANGED <<bad, nev>>
     ELSE LET e == Traces[tid][pos] IN
        /\ \/ e.op = "insert" /\ Insert(Resolve(ToRef(e.ref)), e.v)
           \/ e.op = "lookup" /\ Lookup(Resolve(ToRef(e.ref)))
           \/ e.op = "compare" /\ Compare(Resolve(ToRef(e.ref)), Resolve(ToRef(e.ref2)))
        /\ nev' = nev + 1
        /\ IF ObsOK(e, out', table')
           THEN pos' = pos + 1 /\ UNCHANGED <<tid, skip, bad>>
           ELSE /\ bad' = bad \cup {[tid |-> tid, i |-> pos, exp |-> out',
                                     state |-> StateOf(table')]}
                /\ skip' = TRUE /\ UNCHANGED <<tid, pos>>

TSpec == TInit /\ [][TStep]_tvars

Done == tid > Len(Traces)
Post == /\ TLCGet("stats").diameter > 0
        /\ JsonSerialize(IOEnv.VOUT, [bad |-> SetToSeq(bad), events |-> nev,
                                      traces |-> Len(Traces), done |-> Done])
\* written from the last state (an invariant that is true everywhere but also
\* serialises the verdict when the trace is finished)
Finish == Done => JsonSerialize(IOEnv.VOUT, [bad |-> SetToSeq(bad), events |-> nev,
                                             traces |-> Len(Traces), done |-> TRUE])
=============================================================================
