---------------------------- MODULE MC_Dimensional ----------------------------
(* C07 on the model: dimensional results are the non-dimensional ones times  *)
(* the gas constant in the requested units (and T).  Symbolic magnitudes:     *)
(* generator -100 = the non-dimensional value, -101 = T, -(200+k) = R in the  *)
(* k-th unit of the gas-constant table (values are observations of pmutt).    *)
(* State machine: a property is requested in a unit, then in another one.     *)
EXTENDS Mag, Sequences, Json, IOUtils

NUnits == 16
Props == {"H", "S", "Cp", "G"}
GenND(p) == CASE p = "H" -> 0 - 100 [] p = "S" -> 0 - 102 [] p = "Cp" -> 0 - 103 [] p = "G" -> 0 - 104
GenT == 0 - 101
GenR(k) == 0 - (200 + k)
MulT(p) == p \in {"H", "G"}
\* X(T, u) as a symbolic magnitude
Dim(p, k) == MagMul(MagMul(MagGen(GenND(p)), IF MulT(p) THEN MagGen(GenT) ELSE MagOne), MagGen(GenR(k)))

VARIABLES vreq, vval
Init == vreq = <<"none", 0>> /\ vval = MagOne
Next == \E p \in Props, k \in 1..NUnits : vreq' = <<p, k>> /\ vval' = Dim(p, k)

\* values requested in two units differ exactly by the ratio of the gas constants
RatioLaw == [][(vreq[1] = vreq'[1] /\ vreq[2] > 0) =>
                MagDiv(vval', vval) = MagDiv(MagGen(GenR(vreq'[2])), MagGen(GenR(vreq[2])))]_<<vreq, vval>>
\* every dimensional value contains its non-dimensional value and R exactly once, T iff H or G
Structure == vreq[2] > 0 =>
   /\ vval.f[GenND(vreq[1])] = ROne /\ vval.f[GenR(vreq[2])] = ROne
   /\ (GenT \in DOMAIN vval.f) <=> MulT(vreq[1])
Post == TLCGet("stats").diameter > 0
=============================================================================
