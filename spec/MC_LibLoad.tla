----------------------------- MODULE MC_LibLoad -----------------------------
(* GENERATED unit tables + hand-written model.  Exhaustive small world for   *)
(* C12: every datum (values incl. 0 and negative) x every presentation of    *)
(* every field (file default unit or explicit unit string; 6 enthalpy units, *)
(* 6 entropy units, 5 temperature units with prefixes) - all presentations   *)
(* of one datum must load to structurally equal exact magnitudes, and the    *)
(* non-dimensional values derived from them must be equal too.  State        *)
(* machine: a library file under construction, one group added per step.     *)
EXTENDS LibLoad, Sequences

HU == <<[u |-> <<107, 99, 97, 108, 47, 109, 111, 108>>, f |-> 1, e |-> 0], [u |-> <<107, 74, 47, 109, 111, 108>>, f |-> 4184, e |-> -3], [u |-> <<74, 47, 109, 111, 108>>, f |-> 4184, e |-> 0], [u |-> <<99, 97, 108, 47, 109, 111, 108>>, f |-> 1, e |-> 3], [u |-> <<107, 74, 47, 107, 109, 111, 108>>, f |-> 4184, e |-> 0], [u |-> <<109, 74, 47, 117, 109, 111, 108>>, f |-> 4184, e |-> -3]>>
SU == <<[u |-> <<99, 97, 108, 47, 40, 109, 111, 108, 42, 75, 41>>, f |-> 1, e |-> 0], [u |-> <<74, 47, 40, 109, 111, 108, 42, 75, 41>>, f |-> 4184, e |-> -3], [u |-> <<107, 74, 47, 40, 109, 111, 108, 32, 75, 41>>, f |-> 4184, e |-> -6], [u |-> <<99, 97, 108, 47, 109, 111, 108, 47, 75>>, f |-> 1, e |-> 0], [u |-> <<109, 99, 97, 108, 47, 40, 109, 109, 111, 108, 32, 75, 41>>, f |-> 1, e |-> 0], [u |-> <<74, 47, 109, 111, 108, 47, 75>>, f |-> 4184, e |-> -3]>>
TU == <<[u |-> <<75>>, f |-> 1, e |-> 0], [u |-> <<107, 75>>, f |-> 1, e |-> -3], [u |-> <<109, 75>>, f |-> 1, e |-> 3], [u |-> <<104, 75>>, f |-> 1, e |-> -2], [u |-> <<100, 97, 75>>, f |-> 1, e |-> -1]>>
\* literal of a base-unit decimal [m, e] in the k-th unit of a table: exact
Lit(tabl, k, n) == [m |-> n.m * tabl[k].f, e |-> n.e + tabl[k].e]
HVals == {[m |-> 0 - 102, e |-> 0 - 1], [m |-> 0, e |-> 0], [m |-> 5, e |-> 0 - 1], [m |-> 3725, e |-> 0 - 2]}
SVals == {[m |-> 3041, e |-> 0 - 2], [m |-> 0, e |-> 0], [m |-> 0 - 1207, e |-> 0 - 2]}
TVals == {[m |-> 29815, e |-> 0 - 2], [m |-> 300, e |-> 0], [m |-> 1500, e |-> 0]}
NoDefs == [kind \in {"temperature", "molar enthalpy", "molar entropy", "molar heat capacity"} |-> <<>>]

\* a field presented explicitly, or bare with the unit as the file default
Explicit(tabl, k, n) == [fv |-> [n |-> Lit(tabl, k, n), u |-> tabl[k].u], defs |-> NoDefs]
Bare(kind, tabl, k, n) == [fv |-> [n |-> Lit(tabl, k, n), u |-> <<>>], defs |-> [NoDefs EXCEPT ![kind] = tabl[k].u]]
Load1(kind, p) == LoadQty(kind, p.fv, p.defs)

ASSUME EnthalpyUnitFree == \A n \in HVals, a \in 1..Len(HU), b \in 1..Len(HU) :
  /\ Load1("molar enthalpy", Explicit(HU, a, n)).ok
  /\ Load1("molar enthalpy", Explicit(HU, a, n)) = Load1("molar enthalpy", Explicit(HU, b, n))
  /\ Load1("molar enthalpy", Explicit(HU, a, n)) = Load1("molar enthalpy", Bare("molar enthalpy", HU, b, n))
ASSUME EntropyUnitFree == \A n \in SVals, a \in 1..Len(SU), b \in 1..Len(SU), kind \in {"molar entropy", "molar heat capacity"} :
  /\ Load1(kind, Explicit(SU, a, n)).ok
  /\ Load1(kind, Explicit(SU, a, n)) = Load1(kind, Bare(kind, SU, b, n))
ASSUME TemperatureUnitFree == \A n \in TVals, a \in 1..Len(TU), b \in 1..Len(TU) :
  Load1("temperature", Explicit(TU, a, n)) = Load1("temperature", Bare("temperature", TU, b, n))
\* no unit available: rejected (zero included - zero is a value like any other)
ASSUME NoUnitRejected == \A n \in HVals :
  Load1("molar enthalpy", [fv |-> [n |-> n, u |-> <<>>], defs |-> NoDefs]) = LoadErr("InputDataError")
\* zero loads to zero, with its units honoured (not "absent")
ASSUME ZeroIsZero == \A a \in 1..Len(HU) : Load1("molar enthalpy", Explicit(HU, a, [m |-> 0, e |-> 0])).mag = MagZero

\* ---- state machine: groups presenting the same datum are added to a library
Doc(hn, sn, tn, ha, sa, ta) ==
  [tref |-> <<[n |-> Lit(TU, ta, tn), u |-> TU[ta].u]>>,
   h |-> <<[nd |-> FALSE, v |-> [n |-> Lit(HU, ha, hn), u |-> HU[ha].u]]>>,
   s |-> <<[nd |-> FALSE, v |-> [n |-> Lit(SU, sa, sn), u |-> SU[sa].u]]>>,
   cp |-> <<[nd |-> FALSE, t |-> [n |-> Lit(TU, ta, [m |-> 500, e |-> 0]), u |-> TU[ta].u],
             v |-> [n |-> Lit(SU, sa, sn), u |-> SU[sa].u]]>>,
   rng |-> <<>>]
VARIABLES vdatum, vloaded
Init == vdatum \in HVals \X SVals \X TVals /\ vloaded = {}
Next == \E ha \in 1..Len(HU), sa \in 1..Len(SU), ta \in 1..Len(TU) :
          /\ vloaded' = vloaded \cup {LoadDoc(Doc(vdatum[1], vdatum[2], vdatum[3], ha, sa, ta), NoDefs)}
          /\ UNCHANGED vdatum
\* whatever the presentations, the library holds exactly one correlation for the datum
OneMeaning == Cardinality(vloaded) <= 1 /\ \A c \in vloaded : c.ok
=============================================================================
