------------------------------- MODULE MC_Ring -------------------------------
(* C09 (and the reader part of C08/C16): the corpus of RING texts built by the *)
(* harness (valid fragments and rules from its generator, the patterns of the  *)
(* shipped schemes, every prefix, single-token deletions / duplications /      *)
(* substitutions / insertions, label misuse) is read by the TLA+ parser and    *)
(* reader.  Sharded (IOEnv.SHARD of IOEnv.NSHARD); cursor state machine.       *)
EXTENDS RingReader, Json, IOUtils, TLC

In == JsonDeserialize(IOEnv.VIN)
Shard == atoi(IOEnv.SHARD)
NShard == atoi(IOEnv.NSHARD)
Texts == In.texts
MyIdx == TLCEval({j \in 1..Len(Texts) : j % NShard = Shard})
ResTab == TLCEval([j \in MyIdx |-> ReadOutcome(Texts[j])])

VARIABLES vcase, vres
Init == vcase = 0 /\ vres = [cls |-> "none", allowed |-> {}, dev |-> "", far |-> 0]
Next == vcase = 0 /\ \E j \in MyIdx : vcase' = j /\ vres' = ResTab[j]
\* reading always ends in one of the documented outcome classes
OutcomeClass == vcase = 0 \/ (vres.cls \in Classes /\ vres.allowed \subseteq Classes /\ vres.cls \in vres.allowed)
\* a syntax error is located inside the text (or at its end)
ErrorInsideText == (vcase # 0 /\ vres.cls = "RINGSyntaxError") => (vres.far >= 1 /\ vres.far <= Len(Texts[vcase]) + 1)
Export == JsonSerialize(IOEnv.VOUT, [res |-> [j \in MyIdx |-> [cls |-> ResTab[j].cls, allowed |-> ResTab[j].allowed,
                                                               dev |-> ResTab[j].dev, far |-> ResTab[j].far]]])
Post == TLCGet("stats").diameter > 0 /\ Export
=============================================================================
