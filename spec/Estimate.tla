------------------------------- MODULE Estimate -------------------------------
(* C01 / C06 / C07 / C20: the group-additivity estimate.                      *)
(*   library   L : group name -> correlation (Correlation.tla) or NoData      *)
(*   mapping   x : sequence of <<group name, count>> (counts are rationals:   *)
(*                 integer, fractional, zero, negative)                       *)
(*   Estimate(x) fails with the missing-data error naming exactly the groups  *)
(*   without thermochemical data; otherwise the estimate is the linear form   *)
(*   SUM count_i * correlation_i and its valid range is the intersection of   *)
(*   the constituents' ranges.  Uncertainty: SE = |RMSE(prop, T)| * sqrt(x'Mx)*)
(*   with x placed by the index of each group in the uncertainty basis.       *)
EXTENDS CorrelationDef

NoData == [nodata |-> TRUE]
HasData(L, g) == g \in DOMAIN L /\ "nodata" \notin DOMAIN L[g]

Groups(x) == {x[k][1] : k \in 1..Len(x)}
Missing(L, x) == {g \in Groups(x) : ~HasData(L, g)}

\* intersection of the constituents' explicit ranges (<<>> when none has one)
RECURSIVE Intersect(_, _, _)
Intersect(L, x, acc) ==
  IF x = <<>> THEN acc
  ELSE LET r == L[x[1][1]].rng IN
       Intersect(L, Tail(x),
                 IF r = <<>> THEN acc
                 ELSE IF acc = <<>> THEN r
                 ELSE <<RMax(acc[1], r[1]), RMin(acc[2], r[2])>>)

\* scaling and summing expectation terms
TScale(q, t) == Term(RMul(q, t.rat), LnNorm([k \in 1..Len(t.lns) |-> <<RMul(q, t.lns[k][1]), t.lns[k][2]>>]))
RECURSIVE TSum(_)
TSum(ts) == IF ts = <<>> THEN TRat(RZero) ELSE TAdd(Head(ts), TSum(Tail(ts)))

\* outcome classes of the constituents combine: any error -> error; else any warning
Combine(outs) ==
  IF \E k \in 1..Len(outs) : outs[k].k = "error" THEN "error"
  ELSE IF \E k \in 1..Len(outs) : outs[k].k = "warn+value" THEN "warn+value" ELSE "value"

\* ---- exact form (synthetic libraries): constituents evaluated by Correlation.Eval
EstEval(L, x, prop, t) ==
  LET outs == [k \in 1..Len(x) |-> Eval(L[x[k][1]], prop, t)]
      cls == Combine(outs)
  IN IF cls = "error" THEN [k |-> "error", cls |-> "incomplete"]
     ELSE [k |-> cls, t |-> TSum([k \in 1..Len(x) |-> TScale(x[k][2], outs[k].t)])]

\* ---- general form (real libraries; temperatures are ranks): outcome class and the
\* linear form itself; the harness evaluates SUM count * (observed constituent value)
EstHow(L, x, prop, t) ==
  LET outs == [k \in 1..Len(x) |-> How(L[x[k][1]], prop, t)]
      cls == Combine(outs)
  IN IF cls = "error" THEN [k |-> "error", cls |-> "incomplete"]
     ELSE [k |-> cls, form |-> x]

\* ---- uncertainty: x placed by basis index; q = x' M x
Place(basis, x) == [i \in 1..Len(basis) |->
   RSum([k \in 1..Len(x) |-> IF x[k][1] = basis[i] THEN x[k][2] ELSE RZero])]
Quad(M, v) == RSum([i \in 1..Len(v) |-> RSum([j \in 1..Len(v) |-> RMul(RMul(v[i], M[i][j]), v[j])])])
InBasis(basis, x) == \A k \in 1..Len(x) : \E i \in 1..Len(basis) : basis[i] = x[k][1]

\* ---------------------------------------------------------------- state machine
VARIABLES vlib,    \* the library (constant during a behaviour; loaded once)
          vest,    \* the current estimate: [ok, x, rng] / error record
          veout    \* outcome of the last evaluation
evars == <<vlib, vest, veout>>
NoEst == [ok |-> FALSE, cls |-> "none"]
EInit(L) == vlib = L /\ vest = NoEst /\ veout = [k |-> "none"]

DoEstimate(x, uq) ==
  /\ UNCHANGED vlib /\ veout' = [k |-> "none"]
  /\ vest' = IF Missing(vlib, x) # {} THEN
                [ok |-> FALSE, cls |-> "GroupMissingDataError", groups |-> Missing(vlib, x)]
             ELSE IF uq # <<>> /\ ~InBasis(uq.basis, x) THEN [ok |-> FALSE, cls |-> "notinbasis"]
             ELSE [ok |-> TRUE, x |-> x, rng |-> Intersect(vlib, x, <<>>),
                   q |-> IF uq = <<>> THEN <<>> ELSE <<Quad(uq.M, Place(uq.basis, x))>>]
DoEstEval(prop, t) == vest.ok /\ UNCHANGED <<vlib, vest>> /\ veout' = EstEval(vlib, vest.x, prop, t)
=============================================================================
