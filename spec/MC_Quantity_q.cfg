CONSTANTS
  MaxDepth = 2
  NDims = 8
INIT MInit
NEXT MNext
CONSTRAINT Depth
CONSTRAINT Small
INVARIANT InvWellFormed
PROPERTY ErrKeeps
POSTCONDITION Post
CHECK_DEADLOCK FALSE
