CONSTANTS
  MaxLen = 5
  Guarded = FALSE
SPECIFICATION Spec
INVARIANT Bounded
CHECK_DEADLOCK FALSE
