-------------------------------- MODULE Mag --------------------------------
(* Exact symbolic magnitudes: sign * PRODUCT base^exponent with rational   *)
(* exponents.  Bases are primes (positive ints) and named measured         *)
(* constants ("generators", negative ints) whose decimal literals do not   *)
(* fit TLC's 32-bit integers.  Closed under product, quotient and rational *)
(* power; equality is structural.  The harness turns a Mag into a float.   *)
EXTENDS Rat, FiniteSets, TLC

\* generators (documented literals; values live in harness/mag.py)
GenBTU == 0 - 5     \* 1.05435026444 (BTU in kJ; 12 digits do not fit 32 bits)

\* TLCEval: make the function value concrete (TLC keeps [x \in S |-> e] as a lazy
\* closure that is re-evaluated at every application otherwise)
Clean(f) == TLCEval([b \in {x \in DOMAIN f : ~RIsZero(f[x])} |-> f[b]])
MagOne == [s |-> 1, f |-> <<>>]
MagZero == [s |-> 0, f |-> <<>>]

\* trial division by k = 2..1000; a cofactor without such a divisor is kept as an
\* atomic base (exactness of equality is unaffected for the literals used here)
SmallestFactor(n, k0) ==
  LET c == {k \in 2..(IF n < 1000 THEN n ELSE 1000) : n % k = 0}
  IN IF c = {} THEN n ELSE CHOOSE k \in c : \A j \in c : k <= j
RECURSIVE FactorInt(_)      \* n >= 1  ->  function prime -> exponent (Rat)
FactorInt(n) ==
  IF n = 1 THEN <<>>
  ELSE LET p == SmallestFactor(n, 2)
           r == FactorInt(n \div p)
       IN TLCEval([b \in DOMAIN r \cup {p} |->
             IF b = p THEN RAdd(IF p \in DOMAIN r THEN r[p] ELSE RZero, ROne) ELSE r[b]])

FAdd(f, g) == Clean([b \in DOMAIN f \cup DOMAIN g |->
                 RAdd(IF b \in DOMAIN f THEN f[b] ELSE RZero,
                      IF b \in DOMAIN g THEN g[b] ELSE RZero)])
FScale(f, p) == Clean([b \in DOMAIN f |-> RMul(f[b], p)])

MagOfRat(r) == IF r[1] = 0 THEN MagZero
               ELSE [s |-> IF r[1] < 0 THEN 0 - 1 ELSE 1,
                     f |-> FAdd(FactorInt(AbsI(r[1])), FScale(FactorInt(r[2]), R(0 - 1)))]
MagGen(g) == [s |-> 1, f |-> TLCEval([b \in {g} |-> ROne])]
MagMul(a, b) == IF a.s = 0 \/ b.s = 0 THEN MagZero ELSE [s |-> a.s * b.s, f |-> FAdd(a.f, b.f)]
MagInv(a) == [s |-> a.s, f |-> FScale(a.f, R(0 - 1))]          \* a.s # 0
MagDiv(a, b) == MagMul(a, MagInv(b))
\* rational power; a negative base needs an integer power
MagPow(a, p) == IF a.s = 0 THEN (IF RIsZero(p) THEN MagOne ELSE MagZero)
                ELSE [s |-> IF a.s < 0 /\ RIsInt(p) /\ p[1] % 2 # 0 THEN 0 - 1 ELSE 1,
                      f |-> FScale(a.f, p)]
MagPow10(k) == [s |-> 1, f |-> Clean([b \in {2, 5} |-> R(k)])]
\* decimal literal n * 10^e
MagDec(n, e) == MagMul(MagOfRat(R(n)), MagPow10(e))
\* JSON-friendly form
MagOut(a) == [s |-> a.s, f |-> {<<b, a.f[b]>> : b \in DOMAIN a.f}]
=============================================================================
