----------------------------- MODULE Trace_Units -----------------------------
(* Trace validation for C10: conversion sessions recorded from pgradd.Units  *)
(* (eval_qty, in_units, to_SI_from, from_SI_to).  Each event carries the     *)
(* text evaluated, the outcome class and the seven exponents observed; the   *)
(* spec re-evaluates the text, compares the discrete part here and emits the *)
(* exact magnitude (Mag) so that the harness can compare the float.          *)
EXTENDS Units, Json, IOUtils

In == JsonDeserialize(IOEnv.VIN)
Events == In.events

VARIABLES vpos,     \* next event
          vcur,     \* value of the last successfully evaluated quantity (session state)
          vbad,     \* events whose discrete part disagrees
          vexp      \* expected magnitudes, one per consumed event
tvars == <<vpos, vcur, vbad, vexp>>

None == [ok |-> FALSE, cls |-> "none"]
TInit == vpos = 1 /\ vcur = None /\ vbad = {} /\ vexp = <<>>

\* discrete agreement: outcome class and, for values, the exponents and plain-ness
Agree(o, x) ==
  IF ~x.ok THEN ~o.ok /\ o.cls = x.cls
  ELSE o.ok /\ o.dim = x.dim /\ o.plain = (x.dim = ZeroDims)

Step(e, x, newcur) ==
  /\ vexp' = Append(vexp, IF x.ok THEN [ok |-> TRUE, mag |-> MagOut(x.mag)] ELSE [ok |-> FALSE])
  /\ vbad' = IF Agree(e.obs, x) THEN vbad ELSE vbad \cup {vpos}
  /\ vcur' = newcur
  /\ vpos' = vpos + 1

\* eval: evaluate a text; the session's current quantity becomes its value
EvEval(e) == LET x == EvalText(e.text) IN Step(e, x, IF x.ok THEN x ELSE vcur)
\* in_units: convert the current quantity to the unit denoted by a text
EvInUnits(e) == LET u == EvalText(e.text)
                    x == IF ~u.ok THEN u
                         ELSE LET c == Convert(vcur, u) IN
                              IF c.ok THEN [ok |-> TRUE, mag |-> c.mag, dim |-> ZeroDims] ELSE c
                IN Step(e, x, vcur)
\* to_SI_from(v, u) = v * magnitude(u); from_SI_to(v, u) = v / magnitude(u)  (v a literal text)
EvToSI(e) == LET u == EvalText(e.text) v == EvalText(e.val)
                 x == IF ~u.ok THEN u ELSE [ok |-> TRUE, mag |-> MagMul(v.mag, u.mag), dim |-> ZeroDims]
             IN Step(e, x, vcur)
EvFromSI(e) == LET u == EvalText(e.text) v == EvalText(e.val)
                   x == IF ~u.ok THEN u ELSE [ok |-> TRUE, mag |-> MagDiv(v.mag, u.mag), dim |-> ZeroDims]
               IN Step(e, x, vcur)

TNext == /\ vpos <= Len(Events)
         /\ LET e == Events[vpos] IN
            \/ e.op = "eval" /\ EvEval(e)
            \/ e.op = "in_units" /\ vcur.ok /\ EvInUnits(e)
            \/ e.op = "to_SI" /\ EvToSI(e)
            \/ e.op = "from_SI" /\ EvFromSI(e)
TSpec == TInit /\ [][TNext]_tvars
Done == vpos > Len(Events)
Finish == Done => JsonSerialize(IOEnv.VOUT, [bad |-> SetToSeq(vbad), exp |-> vexp, done |-> TRUE])
=============================================================================
