----------------------------- MODULE MC_Estimate -----------------------------
(* Bounded-exhaustive world for C01/C06/C20 on a synthetic library:           *)
(*   g1, g2 complete correlations with different tables, ranges and T_ref     *)
(*   g3 reference values only (no Cp data), g4 no entropy, g5 without data,   *)
(*   g6 unknown to the library.  All ordered mappings of up to MaxLen of them *)
(*   with counts in {-1, 0, 1/2, 2}; every probe temperature; an uncertainty  *)
(*   basis with a small matrix.                                               *)
EXTENDS Estimate, Json, IOUtils, Sequences, SequencesExt

CONSTANTS MaxLen
Shard == atoi(IOEnv.SHARD)
NShard == atoi(IOEnv.NSHARD)
Q(n, d) == <<n, d>>

Corr(ts, P, tref, h, s, rng) == Construct([k \in 1..Len(ts) |-> R(ts[k])], P, tref, h, s, rng).c
Lib == TLCEval(
  [g \in {"g1", "g2", "g3", "g4", "g5"} |->
     CASE g = "g1" -> Corr(<<2, 3, 4, 6>>, <<1, 0, -1, 1>>, Q(3, 1), <<Q(-3, 2)>>, <<Q(5, 1)>>, <<Q(1, 1), Q(8, 1)>>)
       [] g = "g2" -> Corr(<<3, 6>>, <<5, -1>>, Q(3, 1), <<Q(2, 1)>>, <<Q(0, 1)>>, <<Q(2, 1), Q(7, 1)>>)
       [] g = "g3" -> Corr(<<>>, <<>>, Q(3, 1), <<Q(7, 4)>>, <<Q(-1, 2)>>, <<>>)
       [] g = "g4" -> Corr(<<4>>, <<3>>, Q(3, 1), <<Q(1, 1)>>, <<>>, <<Q(3, 2), Q(9, 1)>>)
       [] g = "g5" -> NoData])
Names == {"g1", "g2", "g3", "g4", "g5", "g6"}
Counts == {Q(-1, 1), Q(0, 1), Q(1, 2), Q(2, 1)}
\* ordered mappings without repeated keys
Maps == TLCEval(UNION {{m \in [1..n -> Names \X Counts] :
                          \A a \in 1..n, b \in 1..n : a # b => m[a][1] # m[b][1]} : n \in 1..MaxLen})
MapSeq == TLCEval(SetToSeq(Maps))
MyIdx == TLCEval({j \in 1..Len(MapSeq) : j % NShard = Shard})
Probes == {Q(1, 1), Q(3, 2), Q(2, 1), Q(3, 1), Q(7, 2), Q(6, 1), Q(7, 1), Q(15, 2), Q(8, 1), Q(9, 1), Q(19, 2), Q(0, 1)}
Props == {"Cp", "H", "S", "G"}
\* g3 has data but is outside the basis; the stored matrix is positive definite in its symmetric part
\* and deliberately not symmetric (x'Mx is defined by the stored entries, whatever their symmetry)
UQ == [basis |-> <<"g1", "g2", "g4">>,
       M |-> << <<Q(2, 1), Q(3, 4), Q(-1, 4)>>, <<Q(1, 4), Q(1, 1), Q(0, 1)>>, <<Q(-1, 4), Q(0, 1), Q(1, 2)>> >>]

Rmse == Corr(<<2, 4, 6>>, <<0, 3, -1>>, Q(3, 1), <<Q(-1, 2)>>, <<Q(3, 4)>>, <<Q(1, 1), Q(8, 1)>>)
Est(x) == IF Missing(Lib, x) # {} THEN [ok |-> FALSE, cls |-> "GroupMissingDataError", groups |-> Missing(Lib, x)]
          ELSE [ok |-> TRUE, x |-> x, rng |-> Intersect(Lib, x, <<>>)]

\* ---------------------------------------------------------------- model theorems
OkMaps == {MapSeq[j] : j \in {i \in MyIdx : Est(MapSeq[i]).ok}}
ValueAt(x, p, t) == EstEval(Lib, x, p, t)
\* never a partial sum: a value needs every group of the mapping to have data
ASSUME NoPartialSum == \A j \in MyIdx : LET x == MapSeq[j] IN
  Est(x).ok <=> \A k \in 1..Len(x) : HasData(Lib, x[k][1])
\* the error names exactly the groups without data
ASSUME NamesMissing == \A j \in MyIdx : LET x == MapSeq[j] IN
  ~Est(x).ok => Est(x).groups = {x[k][1] : k \in {i \in 1..Len(x) : x[i][1] \in {"g5", "g6"}}}
\* linearity: scaling all counts scales every value; order of the mapping is irrelevant
ASSUME Scaling == \A x \in OkMaps : \A p \in Props, t \in {Q(3, 1), Q(7, 2)} :
  LET a == ValueAt(x, p, t)
      b == ValueAt([k \in 1..Len(x) |-> <<x[k][1], RMul(Q(3, 1), x[k][2])>>], p, t) IN
  a.k = b.k /\ (a.k # "error" => b.t = TScale(Q(3, 1), a.t))
ASSUME OrderFree == \A x \in OkMaps : \A p \in Props, t \in {Q(3, 1), Q(7, 2)} :
  ValueAt(x, p, t) = ValueAt([k \in 1..Len(x) |-> x[Len(x) + 1 - k]], p, t)
\* C06: inside the intersection every constituent with Cp data is inside its own range
ASSUME RangeIsIntersection == \A x \in OkMaps : LET r == Intersect(Lib, x, <<>>) IN
  \A t \in Probes : (r # <<>> /\ RLe(r[1], t) /\ RLe(t, r[2])) =>
     \A k \in 1..Len(x) : LET c == Lib[x[k][1]] IN (c.rng # <<>> => RLe(c.rng[1], t) /\ RLe(t, c.rng[2]))
\* ... and outside it no plain value is returned unless only no-Cp constituents are outside
ASSUME OutsideSignalled == \A x \in OkMaps : LET r == Intersect(Lib, x, <<>>) IN
  \A t \in Probes, p \in Props :
     (r # <<>> /\ (RLt(t, r[1]) \/ RLt(r[2], t)) /\ ValueAt(x, p, t).k = "value") =>
        \A k \in 1..Len(x) : LET c == Lib[x[k][1]] IN
           (c.rng # <<>> /\ (RLt(t, c.rng[1]) \/ RLt(c.rng[2], t))) => ~HasCp(c)
\* C20: the quadratic form scales with the square of a common factor, is order free
\* and non-negative on everything enumerated
InB(x) == InBasis(UQ.basis, x)
ASSUME QuadScaling == \A x \in OkMaps : InB(x) =>
  Quad(UQ.M, Place(UQ.basis, [k \in 1..Len(x) |-> <<x[k][1], RMul(Q(-3, 1), x[k][2])>>]))
     = RMul(Q(9, 1), Quad(UQ.M, Place(UQ.basis, x)))
ASSUME QuadOrderFree == \A x \in OkMaps : InB(x) =>
  Quad(UQ.M, Place(UQ.basis, x)) = Quad(UQ.M, Place(UQ.basis, [k \in 1..Len(x) |-> x[Len(x) + 1 - k]]))
ASSUME QuadNonNeg == \A x \in OkMaps : InB(x) => RLe(RZero, Quad(UQ.M, Place(UQ.basis, x)))

\* ---------------------------------------------------------------- state machine
VARIABLE vmap
MInit == EInit(Lib) /\ vmap = 0
MEstimate == \E j \in MyIdx : vmap = 0 /\ vmap' = j /\ DoEstimate(MapSeq[j], <<>>)
MEval == vmap > 0 /\ veout.k = "none" /\ UNCHANGED vmap /\ \E p \in Props, t \in Probes : DoEstEval(p, t)
MNext == MEstimate \/ MEval
\* the library is never modified by estimating or evaluating
LibReadOnly == [][vlib' = vlib]_<<vlib, vest, veout, vmap>>
NeverPartial == vest.ok => \A k \in 1..Len(vest.x) : HasData(vlib, vest.x[k][1])

Export == JsonSerialize(IOEnv.VOUT,
  [lib |-> Lib, uq |-> UQ, rmse |-> Rmse,
   rmse_evals |-> {[p |-> p, t |-> t, o |-> Eval(Rmse, p, t)] : p \in {"Cp", "H", "S"}, t \in Probes},
   maps |-> [j \in MyIdx |-> LET x == MapSeq[j] e == Est(x) IN
      [x |-> x, est |-> e,
       q |-> IF e.ok /\ InB(x) THEN <<Quad(UQ.M, Place(UQ.basis, x))>> ELSE <<>>,
       inb |-> InB(x),
       evals |-> IF e.ok THEN {[p |-> p, t |-> t, o |-> EstEval(Lib, x, p, t)] : p \in Props, t \in Probes} ELSE {}]],
   total |-> Len(MapSeq)])
Post == TLCGet("stats").diameter > 0 /\ Export
=============================================================================
