------------------------------- MODULE MergeT -------------------------------
(* C13, the part Merge.tla leaves out: two correlations for one group whose   *)
(* reference temperatures differ.  ThermochemIncomplete.update keeps the      *)
(* target's reference temperature; a reference enthalpy / entropy of the      *)
(* source is *translated* to it through a temporary correlation made of the   *)
(* source's reference values and reference temperature, the merged Cp table   *)
(* and the hull of the two ranges ("to translate ND_H_ref and ND_S_ref        *)
(* between potentially differing reference temperatures").  Spelled out:      *)
(*   - with Cp data the translation is the thermodynamic one                  *)
(*       T_a*H(T_a) = T_b*H_b + INT_{T_b}^{T_a} Cp*                           *)
(*       S(T_a)     = S_b     + INT_{T_b}^{T_a} Cp*/T                         *)
(*     and the merged correlation is the same *function* of T whichever of    *)
(*     the two was the target (theorem TranslationOrderFree);                 *)
(*   - without any Cp data the value is taken over as it is (the package      *)
(*     warns; H/RT is then not rescaled);                                     *)
(*   - if the target's reference temperature lies outside the hull of the     *)
(*     ranges the translation cannot be evaluated: the update fails with the  *)
(*     incomplete-data error and the target is unchanged;                     *)
(*   - if the source's reference temperature lies outside the merged table's  *)
(*     effective range the temporary correlation cannot even be made          *)
(*     (ValueError of the constructor), target unchanged;                     *)
(*   - a translated value that differs from the one the target has is the     *)
(*     read-only-data conflict unless overwriting.                            *)
(* Cp tables are samples of one polynomial (CorrelationDef's exact families), *)
(* so table conflicts do not arise here; they are Merge.tla's subject.        *)
(* A record: CorrelationDef's correlation plus sl, the logarithmic part of a  *)
(* translated entropy (s holds the rational part).                            *)
EXTENDS CorrelationDef

None == <<>>
HullT(r1, r2) == IF r1 = None THEN r2 ELSE IF r2 = None THEN r1
                 ELSE <<IF RLe(r1[1], r2[1]) THEN r1[1] ELSE r2[1], IF RLe(r2[2], r1[2]) THEN r1[2] ELSE r2[2]>>
UnionTs(a, b) == SortedTs({a.ts[k] : k \in 1..Len(a.ts)} \cup {b.ts[k] : k \in 1..Len(b.ts)})
Base(c) == [ts |-> c.ts, P |-> c.P, tref |-> c.tref, h |-> c.h, s |-> c.s, rng |-> c.rng]
\* the temporary correlation of the update (the source is a base record: sl = <<>>)
Temp(a, b) == [ts |-> UnionTs(a, b), P |-> a.P, tref |-> b.tref, h |-> b.h, s |-> b.s, rng |-> HullT(a.rng, b.rng)]
SVal(a) == IF a.s = None THEN None ELSE <<Term(a.s[1], a.sl)>>
HVal(a) == IF a.h = None THEN None ELSE <<TRat(a.h[1])>>

\* one reference datum: the value kept / taken (a term), or the error
Datum(aval, has, ev, ow) ==
  IF ~has THEN [ok |-> TRUE, v |-> aval]
  ELSE IF ev.k = "error" THEN [ok |-> FALSE, cls |-> "IncompleteDataError"]
  ELSE IF ~ow /\ aval # None /\ aval[1] # ev.t THEN [ok |-> FALSE, cls |-> "ReadOnlyDataError"]
  ELSE [ok |-> TRUE, v |-> <<ev.t>>]

\* the temporary correlation is only made when there is a reference value to translate, and it has to be a
\* correlation that can be constructed (CorrelationDef.Construct: table inside the range, reference
\* temperature inside the effective range) - otherwise the update fails with that constructor's error
TempOK(a, b) == LET t == Temp(a, b) IN Construct(t.ts, t.P, t.tref, t.h, t.s, t.rng).ok
UpdT(a, b, ow) ==
  LET t == Temp(a, b)
      dh == Datum(HVal(a), b.h # None, EvalH(t, a.tref), ow)
      ds == Datum(SVal(a), b.s # None, EvalS(t, a.tref), ow)
  IN IF (b.h # None \/ b.s # None) /\ ~TempOK(a, b) THEN [ok |-> FALSE, cls |-> "ValueError", rec |-> a]
     ELSE IF ~dh.ok THEN [ok |-> FALSE, cls |-> dh.cls, rec |-> a]
     ELSE IF ~ds.ok THEN [ok |-> FALSE, cls |-> ds.cls, rec |-> a]
     ELSE [ok |-> TRUE,
           rec |-> [ts |-> t.ts, P |-> a.P, tref |-> a.tref,
                    h |-> IF dh.v = None THEN None ELSE <<dh.v[1].rat>>,
                    s |-> IF ds.v = None THEN None ELSE <<ds.v[1].rat>>,
                    sl |-> IF ds.v = None THEN <<>> ELSE ds.v[1].lns,
                    rng |-> t.rng]]

\* the merged correlation as a function of temperature
EvalHm(c, t) == EvalH(Base(c), t)
EvalSm(c, t) == LET e == EvalS(Base(c), t) IN
                IF e.k = "error" THEN e ELSE [e EXCEPT !.t = TAdd(e.t, Term(RZero, c.sl))]
=============================================================================
