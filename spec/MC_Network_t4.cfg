CONSTANTS
  Species = {1, 2, 3}
  NRules = 1
  ProcessedOnly = FALSE
  MaxProd = 3
SPECIFICATION MSpec
INVARIANT Within
INVARIANT Complete
INVARIANT NoDupInv
PROPERTY Terminates
CHECK_DEADLOCK FALSE
