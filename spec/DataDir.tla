------------------------------- MODULE DataDir -------------------------------
(* C14 (locating a library): how GroupLibrary.Load(arg) finds its files.      *)
(*                                                                            *)
(* Process-level state: the environment variable pgradd_DATA_DIR (which the   *)
(* program itself may change while it runs) and a data directory resolved     *)
(* once and cached (DataDir.get_data_dir).  An argument is a *name* when it   *)
(* has no path separator, no dot and nothing of that name exists in the       *)
(* working directory; otherwise it is a path and neither the variable nor     *)
(* the cache is consulted.                                                    *)
(*                                                                            *)
(* Two levels are kept apart:                                                 *)
(*   - the faithful machine (what the code does, cache included);             *)
(*   - what the property states: the value the variable has when a name is    *)
(*     first resolved selects the directory (a directory: every name is       *)
(*     served from there; unset or empty: from the package); paths are served *)
(*     from where they point.  Once the program changes the variable *after*  *)
(*     a name has been resolved the statement is silent (StatementAllows is   *)
(*     TRUE); the faithful machine is not.                                    *)
EXTENDS Naturals, Sequences, FiniteSets, TLC

CONSTANTS Dirs,        \* existing directories, "pkg" among them
          Has,         \* Has[d] = names of the libraries directory d contains
          Names,       \* names a program may ask for
          EnvValues,   \* values the variable may take: members of Dirs, "unset", "" and "nodir" (not a directory)
          Variant      \* "faithful", or a design that must be told apart: "recheck" (no cache),
                       \* "ignoreenv" (always the package), "fallback" (a missing name silently comes from the package)

Unset == "unset"
NoCache == "none"
VARIABLES venv,      \* current value of the variable
          vstart,    \* the value in force for the statement: as of the first resolution of a name
          vused,     \* a name has been resolved
          vtouched,  \* the program has modified the variable after that
          vcache,    \* resolved data directory or NoCache
          vobs       \* outcome of the last load
dvars == <<venv, vstart, vused, vtouched, vcache, vobs>>

DInit == /\ venv \in EnvValues /\ vstart = venv /\ vused = FALSE /\ vtouched = FALSE /\ vcache = NoCache
         /\ vobs = [k |-> "init"]

Served(d, n) == IF n \in Has[d] THEN [k |-> "from", d |-> d, n |-> n, how |-> "name"]
                ELSE [k |-> "error", cls |-> "FileNotFoundError"]
\* the directory a fresh resolution yields ("nodir" is not a directory)
Fresh(env) == IF env \in {Unset, ""} THEN "pkg" ELSE env

SetEnv(v) == /\ v \in EnvValues /\ venv' = v
             /\ IF vused THEN vtouched' = TRUE /\ UNCHANGED vstart
                ELSE vstart' = v /\ UNCHANGED vtouched          \* nothing resolved yet: the new value is the one that counts
             /\ vobs' = [k |-> "setenv"] /\ UNCHANGED <<vused, vcache>>
LoadName(n) ==
  /\ n \in Names
  /\ LET d == CASE Variant = "ignoreenv" -> "pkg"
                 [] Variant = "recheck" -> Fresh(venv)
                 [] OTHER -> IF vcache # NoCache THEN vcache ELSE Fresh(venv) IN
     IF d \notin Dirs
     THEN vobs' = [k |-> "error", cls |-> "RuntimeError"] /\ UNCHANGED vcache    \* nothing is cached on failure
     ELSE /\ vcache' = d
          /\ vobs' = IF Variant = "fallback" /\ n \notin Has[d] THEN Served("pkg", n) ELSE Served(d, n)
  /\ vused' = (vused \/ Fresh(venv) \in Dirs)                 \* a failed resolution settles nothing
  /\ UNCHANGED <<venv, vstart, vtouched>>
LoadPath(d, n) ==
  /\ d \in Dirs /\ n \in Names
  /\ vobs' = (IF n \in Has[d] THEN [k |-> "from", d |-> d, n |-> n, how |-> "path"]
              ELSE [k |-> "error", cls |-> "FileNotFoundError"])
  /\ UNCHANGED <<venv, vstart, vused, vtouched, vcache>>

DNext == \/ \E v \in EnvValues : SetEnv(v)
         \/ \E n \in Names : LoadName(n)
         \/ \E d \in Dirs, n \in Names : LoadPath(d, n)
DSpec == DInit /\ [][DNext]_dvars

\* ---------------------------------------------------------------- properties
\* what the statement of C14 allows for the last observation
Allows(obs, touched, start) ==
  \/ obs.k \notin {"from", "error"}
  \/ obs.k = "from" /\ obs.how = "path"                    \* checked by construction of LoadPath
  \/ touched                                               \* the statement is silent
  \/ LET d == Fresh(start) IN
     IF d \notin Dirs THEN obs.k = "error"
     ELSE obs.k = "from" => obs.d = d
StatementAllows(obs) == Allows(obs, vtouched, vstart)
\* the faithful machine never leaves what the statement allows
Refines == StatementAllows(vobs)
\* the override is honoured: with a directory in the variable when names are first resolved, every name comes from it
OverrideHonoured == (~vtouched /\ vstart \in Dirs /\ vobs.k = "from" /\ vobs.how = "name") => vobs.d = vstart
\* a name that the selected directory has never fails, one it lacks never silently comes from elsewhere
NoFallback == (vobs.k = "from" /\ vobs.how = "name") => vobs.n \in Has[vobs.d] /\ vobs.d = vcache
\* resolved once per process
CacheStable == [][vcache # NoCache => vcache' = vcache]_dvars
\* loading by path neither consults nor alters the process state
PathIsPure == [][(vobs'.k = "from" /\ vobs'.how = "path") => UNCHANGED <<venv, vcache>>]_dvars
\* an empty value means "not set"
EmptyIsUnset == (vstart = "" /\ ~vtouched /\ vobs.k = "from" /\ vobs.how = "name") => vobs.d = "pkg"
Depth == TLCGet("level") <= 7
MCHas == [d \in {"pkg", "d1", "d2"} |-> CASE d = "pkg" -> {"both", "onlypkg"} [] d = "d1" -> {"both", "onlyd1"} [] OTHER -> {"both"}]
=============================================================================
