------------------------------ MODULE RingScan ------------------------------
(* C09, "never hangs": the identifier scanner of the RING parser as a small-   *)
(* step machine.  The scanner looks ahead nn characters (peek(nn)) and extends *)
(* the identifier while the LAST character of what it sees is an identifier    *)
(* character; at the end of the input peek returns fewer characters.  With the *)
(* length guard every step makes progress and the scan terminates; without it  *)
(* (Guarded = FALSE, the original code) the scan of a text ending in an        *)
(* identifier never ends - TLC exhibits the cycle.                             *)
EXTENDS Integers, Sequences, TLC

CONSTANTS MaxLen, Guarded
\* abstract texts: sequences over {identifier char, other char}
Texts == UNION {[1..n -> {"a", "_"}] : n \in 1..MaxLen} \cup {<<>>}
IsId(c) == c = "a"

VARIABLES vtext, vstart, vnn, vdone
svars == <<vtext, vstart, vnn, vdone>>
Peek(n) == SubSeq(vtext, vstart, IF vstart + n - 1 <= Len(vtext) THEN vstart + n - 1 ELSE Len(vtext))
Last(s) == s[Len(s)]
Init == vtext \in Texts /\ vstart \in 1..(Len(vtext) + 1) /\ vnn = 2 /\ vdone = FALSE
         /\ (vstart <= Len(vtext) /\ IsId(vtext[vstart]))        \* the scanner is entered on an identifier char
Extend == /\ ~vdone /\ Peek(vnn) # <<>> /\ IsId(Last(Peek(vnn)))
          /\ (Guarded => Len(Peek(vnn)) = vnn)
          /\ vnn' = vnn + 1 /\ UNCHANGED <<vtext, vstart, vdone>>
Stop == /\ ~vdone /\ ~(Peek(vnn) # <<>> /\ IsId(Last(Peek(vnn))) /\ (Guarded => Len(Peek(vnn)) = vnn))
        /\ vdone' = TRUE /\ UNCHANGED <<vtext, vstart, vnn>>
Next == Extend \/ Stop
Spec == Init /\ [][Next]_svars /\ WF_svars(Next)
\* look-ahead never runs past the end by more than one
Bounded == vnn <= Len(vtext) - vstart + 3
\* the identifier taken is a maximal run of identifier characters
TakenIsMaximalRun == vdone => LET e == vstart + vnn - 2 IN
   /\ \A k \in vstart..e : k <= Len(vtext) /\ IsId(vtext[k])
   /\ (e + 1 <= Len(vtext) => ~IsId(vtext[e + 1]))
Terminates == <>vdone
=============================================================================
