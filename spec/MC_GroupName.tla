---------------------------- MODULE MC_GroupName ----------------------------
(* Exhaustive small world for C19: every spelling (all orderings, all     *)
(* run-length spellings) of every multiset of peripherals up to a bound,  *)
(* driven through the dictionary state machine of GroupName.              *)
EXTENDS GroupName, Json, IOUtils

CONSTANTS MaxChunks, MaxTotal, MaxKeys, MaxCount, NAlpha, ZeroCounts
\* C  O  CO  C[d]  H: a name that is the concatenation of two others (CO = C + O), a bracketed name
\* that sorts between them ("C" < "C[d]" < "CO" < "H" < "O"; case-insensitively "CO" < "C[d]")
AlphaList == <<<<67>>, <<79>>, <<67, 79>>, <<67, 91, 100, 93>>, <<72>>>>
Alpha == {AlphaList[k] : k \in 1..NAlpha}
Centres == {<<67>>, <<67, 79>>}
\* a chunk "(n)" or "(n)c"; x = the count is written
\* (a written count of zero is a spelling too: "(H)0" contributes no peripheral)
Chunk == {ch \in [n : Alpha, c : (IF ZeroCounts THEN 0 ELSE 1)..MaxCount, x : BOOLEAN] : ch.c # 1 => ch.x}
ChunkSeqs == UNION {[1..k -> Chunk] : k \in 0..MaxChunks}

RECURSIVE Total(_)
Total(cs) == IF cs = <<>> THEN 0 ELSE Head(cs).c + Total(Tail(cs))
RECURSIVE Expand(_)
Expand(cs) == IF cs = <<>> THEN <<>>
              ELSE [i \in 1..Head(cs).c |-> Head(cs).n] \o Expand(Tail(cs))
RECURSIVE RenderChunks(_)
RenderChunks(cs) ==
  IF cs = <<>> THEN <<>>
  ELSE LET ch == Head(cs) IN
       <<LPAREN>> \o ch.n \o <<RPAREN>> \o (IF ch.x THEN DecText(ch.c) ELSE <<>>)
       \o RenderChunks(Tail(cs))

Shapes == TLCEval({cs \in ChunkSeqs : Total(cs) <= MaxTotal})
Spell == TLCEval([c : Centres, cs : Shapes])
Render(sp) == sp.c \o RenderChunks(sp.cs)
Meaning(sp) == [ok |-> TRUE, csg |-> sp.c, psgs |-> Expand(sp.cs)]
Ident(g) == <<g.csg, BagOf(g.psgs)>>

\* constant-level table: TLC evaluates it once
Tab == TLCEval([sp \in Spell |-> [text |-> Render(sp), psgs |-> Expand(sp.cs),
                          key |-> Canon(sp.c, Expand(sp.cs)),
                          id |-> <<sp.c, BagOf(Expand(sp.cs))>>,
                          rp |-> Resolve([kind |-> "parse", text |-> Render(sp)]),
                          rc |-> Resolve([kind |-> "ctor", csg |-> sp.c, psgs |-> Expand(sp.cs)]),
                          rs |-> Resolve([kind |-> "plain", text |-> Render(sp)])]])
\* ------------------------------------------------ static model theorems
\* the parser recovers exactly what the spelling denotes
ASSUME ParseRender == \A sp \in Spell : ParseG(Render(sp)) = Meaning(sp)
\* canonical names are canonical: they parse back to the same group
ASSUME CanonRoundTrip ==
  \A sp \in Spell : LET g == Meaning(sp) k == Canon(g.csg, g.psgs) IN
     /\ ParseG(k).ok /\ SameGroup(ParseG(k), g)
     /\ Canon(ParseG(k).csg, ParseG(k).psgs) = k
\* canonical name is injective on (centre, multiset): equal names <=> same group
ASSUME CanonInjective ==
  \A s1, s2 \in Spell : LET g == Meaning(s1) h == Meaning(s2) IN
     (Tab[s1].key = Tab[s2].key) <=> (Tab[s1].id = Tab[s2].id)
\* a number with no pending peripheral is the documented syntax error
ASSUME NumberFirst == \A c \in Centres : ~ParseG(c \o <<LPAREN, 51, RPAREN>>).ok
                                      /\ ~ParseG(c \o <<LPAREN, RPAREN, 50>>).ok

\* ------------------------------------------------ state machine + ghost
VARIABLE ghost      \* identity (centre, bag) -> value: what the dictionary must hold
mvars == <<table, out, ghost>>

MInit == GInit /\ ghost = <<>>
PRef(sp) == Tab[sp].rp
CRef(sp) == Tab[sp].rc
SRef(sp) == Tab[sp].rs

MInsert == \E sp \in Spell, v \in 1..2, viaCtor \in BOOLEAN :
  /\ Insert(IF viaCtor THEN CRef(sp) ELSE PRef(sp), v)
  /\ LET id == Tab[sp].id IN
     ghost' = [x \in DOMAIN ghost \cup {id} |-> IF x = id THEN v ELSE ghost[x]]
MLookup == \E sp \in Spell : Lookup(PRef(sp)) /\ UNCHANGED ghost
MLookupPlain == \E sp \in Spell : Lookup(SRef(sp)) /\ UNCHANGED ghost
CmpSel == TLCEval({sp \in Spell : Len(sp.cs) <= 1 /\ sp.c = <<67>>})
MCompare == \E s1 \in Spell, s2 \in CmpSel : Compare(PRef(s1), CRef(s2)) /\ UNCHANGED ghost
MNext == MInsert \/ MLookup \/ MLookupPlain \/ MCompare

Bounded == Cardinality(DOMAIN table) <= MaxKeys

\* the property: a spelling finds an entry exactly when an entry with the same
\* centre and the same multiset was inserted, and then finds that entry
Agree == \A sp \in Spell :
  LET k == Tab[sp].key id == Tab[sp].id IN
  /\ (k \in DOMAIN table) <=> (id \in DOMAIN ghost)
  /\ (k \in DOMAIN table) => table[k] = ghost[id]
\* a plain string finds an entry exactly when it is that entry's canonical name
PlainInterop == \A sp \in Spell :
  (Tab[sp].text \in DOMAIN table) <=> (Tab[sp].id \in DOMAIN ghost /\ Tab[sp].text = Tab[sp].key)
ReadOnly == [][(MLookup \/ MLookupPlain \/ MCompare) => UNCHANGED table]_mvars

\* ------------------------------------------------ export for replay on the code
Export ==
  JsonSerialize(IOEnv.VOUT,
    [spellings |-> SetToSeq({[text |-> Tab[sp].text, csg |-> sp.c, psgs |-> Tab[sp].psgs,
                              canon |-> Tab[sp].key] : sp \in Spell})])
Post == TLCGet("stats").diameter > 0 /\ Export
=============================================================================
