CONSTANTS
  Dirs = {"pkg", "d1", "d2"}
  Has <- MCHas
  Names = {"both", "onlyd1", "onlypkg"}
  EnvValues = {"unset", "", "d1", "d2", "nodir"}
  Variant = "fallback"
SPECIFICATION DSpec
CONSTRAINT Depth
INVARIANT Refines
INVARIANT OverrideHonoured
INVARIANT NoFallback
INVARIANT EmptyIsUnset
PROPERTY CacheStable
PROPERTY PathIsPure
CHECK_DEADLOCK FALSE
