------------------------------- MODULE LibLoad -------------------------------
(* C12 / C18 / C14: the meaning of a group's thermochemical data as written   *)
(* in a library file.  A document gives T_ref, a reference enthalpy and       *)
(* entropy, Cp points and a range; each dimensional value is a decimal        *)
(* literal with an explicit unit string, or a bare number that takes the      *)
(* file-level default unit of its kind (temperature, molar enthalpy, molar    *)
(* entropy, molar heat capacity); non-dimensional keys (ND_...) give the      *)
(* value already divided by R (and by T_ref for the enthalpy).  A dimensional *)
(* value with no unit available is an input error.  The loaded correlation is *)
(* non-dimensional:  H/(R T_ref),  S/R,  Cp/R,  temperatures in K.            *)
(* Magnitudes are exact (Mag.tla); unit strings are evaluated by Units.tla.   *)
EXTENDS Units

\* the gas constant of pgradd.Consts: 8.314472 J/(mol K)
RGas == MagDec(8314472, 0 - 6)
DimK == <<RZero, RZero, RZero, RZero, ROne, RZero, RZero>>
DimEnergyPerMol == <<R(2), ROne, R(0 - 2), RZero, RZero, R(0 - 1), RZero>>
DimEntropy == <<R(2), ROne, R(0 - 2), RZero, R(0 - 1), R(0 - 1), RZero>>
KindDim(kind) == CASE kind = "temperature" -> DimK
                   [] kind = "molar enthalpy" -> DimEnergyPerMol
                   [] kind \in {"molar entropy", "molar heat capacity"} -> DimEntropy

LoadErr(c) == [ok |-> FALSE, cls |-> c]
\* a decimal literal [m, e] = m * 10^e
NumMagOf(n) == MagDec(n.m, n.e)

\* a dimensional field: explicit unit wins, else the default of its kind, else error;
\* the result is the SI magnitude (kind's SI unit: K, J/mol, J/(mol K))
LoadQty(kind, fv, defs) ==
  LET ut == IF fv.u # <<>> THEN fv.u ELSE defs[kind] IN
  IF ut = <<>> THEN LoadErr("InputDataError")
  ELSE LET q == EvalText(ut) IN
       IF ~q.ok THEN LoadErr("UnitsParseError")
       ELSE IF q.dim # KindDim(kind) THEN LoadErr("wrong-dimension")     \* outside the statement
       ELSE [ok |-> TRUE, mag |-> MagMul(NumMagOf(fv.n), q.mag)]

Opt(r) == IF r.ok THEN <<r.mag>> ELSE <<>>
DefaultTref == [n |-> [m |-> 29815, e |-> 0 - 2], u |-> <<75>>]      \* "298.15 K"

\* a whole thermochem document -> the non-dimensional correlation (or the first error,
\* in the order the loader meets the fields is irrelevant for the error *class*)
LoadDoc(doc, defs) ==
  LET tr == LoadQty("temperature", IF doc.tref = <<>> THEN DefaultTref ELSE doc.tref[1], defs)
      hq == IF doc.h = <<>> \/ doc.h[1].nd THEN [ok |-> TRUE] ELSE LoadQty("molar enthalpy", doc.h[1].v, defs)
      sq == IF doc.s = <<>> \/ doc.s[1].nd THEN [ok |-> TRUE] ELSE LoadQty("molar entropy", doc.s[1].v, defs)
      cpT == [k \in 1..Len(doc.cp) |-> LoadQty("temperature", doc.cp[k].t, defs)]
      cpV == [k \in 1..Len(doc.cp) |-> IF doc.cp[k].nd THEN [ok |-> TRUE, mag |-> NumMagOf(doc.cp[k].v.n)]
                                       ELSE LoadQty("molar heat capacity", doc.cp[k].v, defs)]
      rq == [k \in 1..Len(doc.rng) |-> LoadQty("temperature", doc.rng[k], defs)]
      errs == (IF tr.ok THEN <<>> ELSE <<tr>>) \o (IF hq.ok THEN <<>> ELSE <<hq>>) \o (IF sq.ok THEN <<>> ELSE <<sq>>)
              \o SelectSeq(cpT, LAMBDA r : ~r.ok) \o SelectSeq(cpV, LAMBDA r : ~r.ok)
              \o SelectSeq(rq, LAMBDA r : ~r.ok)
  IN IF errs # <<>> THEN errs[1]
     ELSE [ok |-> TRUE,
           tref |-> tr.mag,
           h |-> IF doc.h = <<>> THEN <<>>
                 ELSE IF doc.h[1].nd THEN <<NumMagOf(doc.h[1].v.n)>>
                 ELSE <<MagDiv(hq.mag, MagMul(RGas, tr.mag))>>,
           s |-> IF doc.s = <<>> THEN <<>>
                 ELSE IF doc.s[1].nd THEN <<NumMagOf(doc.s[1].v.n)>>
                 ELSE <<MagDiv(sq.mag, RGas)>>,
           cp |-> [k \in 1..Len(doc.cp) |->
                    [t |-> cpT[k].mag,
                     v |-> IF doc.cp[k].nd THEN cpV[k].mag ELSE MagDiv(cpV[k].mag, RGas)]],
           rng |-> [k \in 1..Len(doc.rng) |-> rq[k].mag]]

\* which parts a correlation has (zero is present)
Presence(c) == [h |-> c.h # <<>>, s |-> c.s # <<>>, ncp |-> Len(c.cp), rng |-> c.rng # <<>>]
=============================================================================
