----------------------------- MODULE Trace_LibLoad -----------------------------
(* Validation of library documents against LibLoad.tla.  Each event is one     *)
(* thermochem document (as read independently from YAML by the harness) with  *)
(* the file-level default units, what the implementation made of it, and       *)
(* optionally                                                                  *)
(*   same : index of an earlier event that presents the same physical data in  *)
(*          other units / non-dimensionally  (C12: the two must load to        *)
(*          structurally equal exact magnitudes);                              *)
(*   orig : the presence flags of the correlation the text was formatted from  *)
(*          (C18: formatting then loading preserves which parts exist).        *)
(* TLC checks the discrete part and emits the exact loaded values (Mag).       *)
EXTENDS LibLoad, Json, IOUtils

In == JsonDeserialize(IOEnv.VIN)
Events == In.events

VARIABLES vpos, vres, vbad
tvars == <<vpos, vres, vbad>>

FV(j) == [n |-> [m |-> j.n[1], e |-> j.n[2]], u |-> j.u]
OptFV(a) == IF a = <<>> THEN <<>> ELSE <<FV(a[1])>>
RefOf(a) == IF a = <<>> THEN <<>> ELSE <<[nd |-> a[1].nd, v |-> FV(a[1].v)]>>
DocOf(j) == [tref |-> OptFV(j.tref), h |-> RefOf(j.h), s |-> RefOf(j.s),
             cp |-> [k \in 1..Len(j.cp) |-> [nd |-> j.cp[k].nd, t |-> FV(j.cp[k].t), v |-> FV(j.cp[k].v)]],
             rng |-> [k \in 1..Len(j.rng) |-> FV(j.rng[k])]]
DefsOf(j) == [kind \in {"temperature", "molar enthalpy", "molar entropy", "molar heat capacity"} |->
                IF kind \in DOMAIN j THEN j[kind] ELSE <<>>]

TInit == vpos = 1 /\ vres = <<>> /\ vbad = {}
OutOf(r) == IF ~r.ok THEN r
            ELSE [ok |-> TRUE, tref |-> MagOut(r.tref),
                  h |-> IF r.h = <<>> THEN <<>> ELSE <<MagOut(r.h[1])>>,
                  s |-> IF r.s = <<>> THEN <<>> ELSE <<MagOut(r.s[1])>>,
                  cp |-> [k \in 1..Len(r.cp) |-> [t |-> MagOut(r.cp[k].t), v |-> MagOut(r.cp[k].v)]],
                  rng |-> [k \in 1..Len(r.rng) |-> MagOut(r.rng[k])]]
TNext ==
  /\ vpos <= Len(Events)
  /\ LET e == Events[vpos]
         r == LoadDoc(DocOf(e.doc), DefsOf(e.defs))
         classOK == IF r.ok THEN e.obs.ok ELSE (~e.obs.ok /\ (r.cls = "wrong-dimension" \/ e.obs.cls = r.cls))
         presOK == ~r.ok \/ ~e.obs.ok \/ e.obs.pres = Presence(r)
         sameOK == ("same" \notin DOMAIN e) \/ (r.ok /\ vres[e.same].ok /\ r = vres[e.same])
         origOK == ("orig" \notin DOMAIN e) \/ (r.ok /\ e.orig = Presence(r))
     IN /\ vres' = Append(vres, r)
        /\ vbad' = vbad \cup (IF classOK THEN {} ELSE {<<vpos, "class">>})
                        \cup (IF presOK THEN {} ELSE {<<vpos, "presence">>})
                        \cup (IF sameOK THEN {} ELSE {<<vpos, "same">>})
                        \cup (IF origOK THEN {} ELSE {<<vpos, "roundtrip-presence">>})
        /\ vpos' = vpos + 1
TSpec == TInit /\ [][TNext]_tvars
Done == vpos > Len(Events)
Finish == Done => JsonSerialize(IOEnv.VOUT, [bad |-> SetToSeq(vbad),
                                             res |-> [k \in 1..Len(vres) |-> OutOf(vres[k])], done |-> TRUE])
=============================================================================
