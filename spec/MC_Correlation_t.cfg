CONSTANTS
  Deep = TRUE
INIT MInit
NEXT MNext
INVARIANT OutcomeKinds
PROPERTY ReadOnly
POSTCONDITION Post
CHECK_DEADLOCK FALSE
