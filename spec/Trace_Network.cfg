CONSTANTS
  Species = {0}
  NRules = 0
  ProcessedOnly = FALSE
SPECIFICATION TSpec
INVARIANT Finish
CHECK_DEADLOCK FALSE
