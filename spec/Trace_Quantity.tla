---------------------------- MODULE Trace_Quantity ----------------------------
(* Trace validation for C11: calculator histories executed on pgradd's      *)
(* Quantity / ArrayQuantity objects are consumed event by event by the      *)
(* actions of Quantity.tla; every observed result must be the spec's.       *)
EXTENDS Quantity, Json, IOUtils, Sequences, SequencesExt

In == JsonDeserialize(IOEnv.VIN)
Traces == In.traces

VARIABLES tid, pos, skip, bad, nev
tvars == <<acc, res, tid, pos, skip, bad, nev>>

\* observation matches expectation; the spec leaves open: the error class
\* "any", and magnitudes it does not determine (Unknown)
ValMatch(o, x) ==
  IF x.t \in {"num", "qty"} THEN
       o.t = x.t /\ (x.v = Unknown \/ o.v = x.v) /\ (x.t = "qty" => o.d = x.d)
  ELSE o = x
ObsOK(o, x) ==
  IF x.t = "err" THEN o.t = "err" /\ (x.cls = "any" \/ o.cls = x.cls)
  ELSE IF o.t = "err" THEN FALSE ELSE ValMatch(o, x)

TInit == acc = Num(RZero) /\ res = [t |-> "none"]
         /\ tid = 1 /\ pos = 1 /\ skip = FALSE /\ bad = {} /\ nev = 0

Act(e) ==
  \/ e.op = "init" /\ acc' = e.b /\ res' = [t |-> "none"]
  \/ e.op \in BinOps /\ ~e.refl /\ DoBin(e.op, e.b)
  \/ e.op \in BinOps /\ e.refl /\ DoRBin(e.op, e.b)
  \/ e.op \in UnOps /\ DoUn(e.op)
  \/ e.op = "pow" /\ DoPow(e.p)
  \/ e.op = "in_units" /\ DoInUnits(e.u)

Expected == IF res'.t = "none" THEN acc' ELSE res'

TStep ==
  /\ tid <= Len(Traces)
  /\ IF skip \/ pos > Len(Traces[tid]) THEN
        /\ tid' = tid + 1 /\ pos' = 1 /\ skip' = FALSE
        /\ acc' = Num(RZero) /\ res' = [t |-> "none"] /\ UNCHANGED <<bad, nev>>
     ELSE LET e == Traces[tid][pos] IN
        /\ Act(e)
        /\ nev' = nev + 1
        /\ IF ObsOK(e.obs, Expected)
           THEN pos' = pos + 1 /\ UNCHANGED <<tid, skip, bad>>
           ELSE /\ bad' = bad \cup {[tid |-> tid, i |-> pos, exp |-> Expected]}
                /\ skip' = TRUE /\ UNCHANGED <<tid, pos>>

TSpec == TInit /\ [][TStep]_tvars
Done == tid > Len(Traces)
Finish == Done => JsonSerialize(IOEnv.VOUT, [bad |-> SetToSeq(bad), events |-> nev,
                                             traces |-> Len(Traces), done |-> TRUE])
\* every accumulator the implementation reaches is well formed
TraceWellFormed == WellFormed(acc)
=============================================================================
