------------------------------ MODULE Quantity ------------------------------
(* C11: the algebra of physical quantities, as a calculator state machine. *)
(* A value is a plain number, a quantity (SI magnitude + seven base        *)
(* exponents m kg s A K mol cd), or an array of either.  Transcribed from  *)
(* the documented behaviour (class docstring of Quantity, Units/__init__). *)
EXTENDS Rat, FiniteSets, TLC

ZeroDim == <<RZero, RZero, RZero, RZero, RZero, RZero, RZero>>
DimAdd(a, b) == [k \in 1..7 |-> RAdd(a[k], b[k])]
DimSub(a, b) == [k \in 1..7 |-> RSub(a[k], b[k])]
DimScale(a, p) == [k \in 1..7 |-> RMul(a[k], p)]

\* constructors
Num(v) == [t |-> "num", v |-> v]
Qty(v, d) == [t |-> "qty", v |-> v, d |-> d]
NumArr(vs) == [t |-> "numarr", vs |-> vs]
QtyArr(vs, d) == [t |-> "arr", vs |-> vs, d |-> d]
\* a result with all exponents cancelled is a plain number, never a quantity
Build(v, d) == IF d = ZeroDim THEN Num(v) ELSE Qty(v, d)
BuildArr(vs, d) == IF d = ZeroDim THEN NumArr(vs) ELSE QtyArr(vs, d)

IsArr(x) == x.t \in {"numarr", "arr"}
DimOf(x) == IF x.t \in {"num", "numarr"} THEN ZeroDim ELSE x.d
Vals(x) == IF IsArr(x) THEN x.vs ELSE <<x.v>>
\* a *bare* zero: a dimensionless number 0 (or all-zero plain array)
BareZero(x) == DimOf(x) = ZeroDim /\ \A k \in 1..Len(Vals(x)) : RIsZero(Vals(x)[k])

Err(c) == [t |-> "err", cls |-> c]
Unspecified == [t |-> "unspecified"]
Bool(b) == [t |-> "bool", b |-> b]
Bools(bs) == [t |-> "bools", bs |-> bs]

\* operands of + - and ordering must have the same dimension, the only
\* dimensionless operand accepted being a bare zero
Compatible(a, b) == DimOf(a) = DimOf(b) \/ BareZero(a) \/ BareZero(b)
ResDim(a, b) == IF BareZero(a) /\ DimOf(a) # DimOf(b) THEN DimOf(b) ELSE DimOf(a)

\* element-wise lifting with scalar broadcasting
N2(a, b) == IF IsArr(a) THEN Len(a.vs) ELSE IF IsArr(b) THEN Len(b.vs) ELSE 1
El(x, k) == IF IsArr(x) THEN x.vs[k] ELSE x.v
Lift2(a, b, F(_, _)) == [k \in 1..N2(a, b) |-> F(El(a, k), El(b, k))]
ShapeOK(a, b) == IF IsArr(a) THEN (IF IsArr(b) THEN Len(a.vs) = Len(b.vs) ELSE TRUE) ELSE TRUE

Arith(a, b, d, F(_, _)) ==
  IF IsArr(a) \/ IsArr(b) THEN BuildArr(Lift2(a, b, F), d)
  ELSE Build(F(a.v, b.v), d)
Cmp(a, b, P(_, _)) ==
  IF IsArr(a) \/ IsArr(b) THEN Bools([k \in 1..N2(a, b) |-> P(El(a, k), El(b, k))])
  ELSE Bool(P(a.v, b.v))

REq(x, y) == x = y
RNe(x, y) == x # y
RGt(x, y) == RLt(y, x)
RGe(x, y) == RLe(y, x)

BinOps == {"add", "sub", "mul", "div", "eq", "ne", "lt", "le", "gt", "ge"}
UnOps == {"neg", "abs"}

DivByZero(b) == \E k \in 1..Len(Vals(b)) : RIsZero(Vals(b)[k])

Apply2(op, a, b) ==
  CASE op \in {"add", "sub", "lt", "le", "gt", "ge"} ->
         IF ~Compatible(a, b) THEN Err("UnitsError")
         ELSE (CASE op = "add" -> Arith(a, b, ResDim(a, b), RAdd)
                [] op = "sub" -> Arith(a, b, ResDim(a, b), RSub)
                [] op = "lt" -> Cmp(a, b, RLt)
                [] op = "le" -> Cmp(a, b, RLe)
                [] op = "gt" -> Cmp(a, b, RGt)
                [] op = "ge" -> Cmp(a, b, RGe))
    [] op = "eq" -> IF ~Compatible(a, b) THEN Bool(FALSE) ELSE Cmp(a, b, REq)
    [] op = "ne" -> IF ~Compatible(a, b) THEN Bool(TRUE) ELSE Cmp(a, b, RNe)
    [] op = "mul" -> Arith(a, b, DimAdd(DimOf(a), DimOf(b)), RMul)
    [] op = "div" -> IF DivByZero(b) THEN Unspecified   \* outside the statement
                     ELSE Arith(a, b, DimSub(DimOf(a), DimOf(b)), RDiv)

Apply1(op, a) ==
  CASE op = "neg" -> IF IsArr(a) THEN BuildArr([k \in 1..Len(a.vs) |-> RNeg(a.vs[k])], DimOf(a))
                     ELSE Build(RNeg(a.v), DimOf(a))
    [] op = "abs" -> IF IsArr(a) THEN BuildArr([k \in 1..Len(a.vs) |-> RAbs(a.vs[k])], DimOf(a))
                     ELSE Build(RAbs(a.v), DimOf(a))

\* power by a plain rational p (scalar base): exponents scale; the magnitude
\* is exact for integer p and for p = 1/2 on perfect squares, else unknown
Unknown == <<0, 0>>     \* magnitude the spec does not determine
PowVal(v, p) == IF RIsInt(p) THEN (IF RIsZero(v) /\ p[1] < 0 THEN Unknown ELSE RPowI(v, p[1]))
                ELSE IF p = <<1, 2>> /\ RHasSqrt(v) THEN RSqrt(v)
                ELSE Unknown
ApplyPow(a, p) == LET d == DimScale(DimOf(a), p) IN
  IF d = ZeroDim THEN [t |-> "num", v |-> PowVal(a.v, p)]
  ELSE [t |-> "qty", v |-> PowVal(a.v, p), d |-> d]

\* conversion to a unit u (a scalar quantity): the ratio of magnitudes
\* when the dimensions agree, otherwise the units error
InUnits(a, u) == IF DimOf(a) # DimOf(u) THEN Err("UnitsError")
                 ELSE IF IsArr(a) THEN NumArr([k \in 1..Len(a.vs) |-> RDiv(a.vs[k], u.v)])
                 ELSE Num(RDiv(a.v, u.v))

\* ---------------------------------------------------------- calculator
VARIABLES acc,     \* current value
          res      \* result of the last comparison / failed operation
qvars == <<acc, res>>

IsValue(x) == x.t \in {"num", "qty", "numarr", "arr"}
\* an operation that yields a value replaces the accumulator; a comparison or
\* an error leaves it alone (and is observable in res)
Settle(r) == IF IsValue(r) THEN acc' = r /\ res' = [t |-> "none"]
             ELSE res' = r /\ UNCHANGED acc

DoBin(op, b) == ShapeOK(acc, b) /\ Apply2(op, acc, b) # Unspecified /\ Settle(Apply2(op, acc, b))
DoRBin(op, b) == ShapeOK(b, acc) /\ Apply2(op, b, acc) # Unspecified /\ Settle(Apply2(op, b, acc))   \* reflected: b op acc
DoUn(op) == Settle(Apply1(op, acc))
DoPow(p) == ~IsArr(acc) /\ acc.v # Unknown /\ Settle(ApplyPow(acc, p))
DoInUnits(u) == Settle(InUnits(acc, u))

\* the plain-ness invariant: a quantity never has all-zero exponents
WellFormed(x) == (x.t \in {"qty", "arr"}) => x.d # ZeroDim
=============================================================================
