--------------------------- MODULE MC_Correlation ---------------------------
(* Bounded-exhaustive world for C05/C06: tables of 1..5 points sampled from *)
(* polynomials of the matching order, every placement of the reference      *)
(* temperature and of the evaluation temperature relative to                *)
(* lo <= T_min <= knots <= T_max <= hi (all coincidences), two supply       *)
(* orders, complete and partial correlations.  Sharded (IOEnv.SHARD).       *)
EXTENDS Correlation, Json, IOUtils, Sequences, SequencesExt

CONSTANTS Deep
Shard == atoi(IOEnv.SHARD)
NShard == atoi(IOEnv.NSHARD)

Q(n, d) == <<n, d>>
\* table shapes: temperatures (grid) and polynomial; degree <= min(3, N-1)
Shapes == << [ts |-> <<3>>, P |-> <<3>>],
             [ts |-> <<4>>, P |-> <<0>>],
             [ts |-> <<2, 4>>, P |-> <<1, 1>>],
             [ts |-> <<3, 6>>, P |-> <<5, -1>>],
             [ts |-> <<2, 3, 5>>, P |-> <<2, -1, 1>>],
             [ts |-> <<2, 4, 6>>, P |-> <<0, 3, -1>>],
             [ts |-> <<2, 3, 4, 6>>, P |-> <<1, 0, -1, 1>>],
             [ts |-> <<2, 3, 5, 6>>, P |-> <<-4, 2, 0, 1>>],
             [ts |-> <<2, 3, 4, 5, 6>>, P |-> <<0, 2, 0, -1>>],
             [ts |-> <<2, 3, 4, 5, 6, 7>>, P |-> <<3, -2, 1, 0>>] >>
NShapes == IF Deep THEN 10 ELSE 8
\* supply orders: ascending, descending, rotated
Orders(n) == IF n = 1 THEN {<<1>>} ELSE
             {[k \in 1..n |-> k], [k \in 1..n |-> n + 1 - k]} \cup
             (IF Deep /\ n > 2 THEN {[k \in 1..n |-> IF k = n THEN 1 ELSE k + 1]} ELSE {})
\* reference temperatures relative to the table: below, at T_min, inside (off-knot),
\* at T_max, above
Trefs(ts) == {Q(1, 1), R(ts[1]), R(ts[Len(ts)]), Q(15, 2)} \cup
             (IF Len(ts) > 1 THEN {Q(2 * ts[1] + 1, 2)} ELSE {})
Ranges(ts) == {<<>>, <<Q(1, 1), Q(8, 1)>>, <<Q(1, 2), Q(9, 1)>>}
\* evaluation temperatures: every knot, off-knot points inside, both continuation
\* zones, range ends, just outside, far outside, zero and negative
Probes(ts) == {R(ts[k]) : k \in 1..Len(ts)} \cup
              {Q(1, 2), Q(1, 1), Q(3, 2), Q(5, 2), Q(7, 2), Q(9, 2), Q(13, 2), Q(15, 2), Q(8, 1), Q(9, 1),
               Q(1, 4), Q(19, 2), Q(30, 1), Q(0, 1), Q(-1, 1)}
RefVals == {[h |-> <<Q(-3, 2)>>, s |-> <<Q(5, 1)>>], [h |-> <<Q(0, 1)>>, s |-> <<Q(0, 1)>>]}
Partial == {[h |-> <<>>, s |-> <<Q(5, 1)>>], [h |-> <<Q(7, 4)>>, s |-> <<>>]}

FullCases == {[shape |-> i, ord |-> o, tref |-> tr, rng |-> rg, hs |-> hs, cp |-> TRUE] :
                 i \in 1..NShapes, o \in UNION {Orders(Len(Shapes[j].ts)) : j \in 1..NShapes},
                 tr \in UNION {Trefs(Shapes[j].ts) : j \in 1..NShapes},
                 rg \in Ranges(<<>>), hs \in RefVals}
WF(c) == /\ c.ord \in Orders(Len(Shapes[c.shape].ts))
         /\ c.tref \in Trefs(Shapes[c.shape].ts)
\* partial correlations: missing H or S (with a table), and no table at all
PartCases == {[shape |-> i, ord |-> [k \in 1..Len(Shapes[i].ts) |-> k], tref |-> R(Shapes[i].ts[1]),
               rng |-> <<Q(1, 1), Q(8, 1)>>, hs |-> hs, cp |-> TRUE] : i \in {1, 3, 7}, hs \in Partial}
NoCpCases == {[shape |-> 1, ord |-> <<1>>, tref |-> Q(3, 1), rng |-> rg, hs |-> hs, cp |-> FALSE] :
               rg \in {<<>>, <<Q(2, 1), Q(8, 1)>>}, hs \in RefVals \cup Partial}
CaseSeq == TLCEval(SetToSeq({c \in FullCases : WF(c)} \cup PartCases \cup NoCpCases))
MyIdx == TLCEval({j \in 1..Len(CaseSeq) : j % NShard = Shard})

Build(c) == LET sh == Shapes[c.shape] IN
  IF c.cp THEN Construct([k \in 1..Len(sh.ts) |-> R(sh.ts[c.ord[k]])], sh.P, c.tref, c.hs.h, c.hs.s, c.rng)
  ELSE Construct(<<>>, <<>>, c.tref, c.hs.h, c.hs.s, c.rng)
Props == {"Cp", "H", "S", "G"}

\* ---------------------------------------------------------------- model theorems
Built == TLCEval({Build(CaseSeq[j]) : j \in MyIdx})
OkCorrs == {b.c : b \in {x \in Built : x.ok}}
Full(c) == HasCp(c) /\ c.h # <<>> /\ c.s # <<>>
\* the tabulated values are reproduced, the reference values returned at T_ref
ASSUME Reproduces == \A c \in OkCorrs : Full(c) =>
  /\ \A k \in 1..Len(c.ts) : EvalCp(c, c.ts[k]) = Val(TRat(PolyAt(c.P, c.ts[k])))
  /\ EvalH(c, c.tref) = Val(TRat(c.h[1]))
  /\ EvalS(c, c.tref).t.rat = c.s[1] /\ EvalS(c, c.tref).t.lns = <<>>
\* additivity of the integrals: T2*H(T2) - T1*H(T1) = G(T2) - G(T1) for all in-range pairs
ASSUME IntegralIdentity == \A c \in OkCorrs : Full(c) =>
  \A t1 \in Probes(<<2>>), t2 \in Probes(<<2>>) :
    (InRange(c, t1) /\ InRange(c, t2) /\ RLt(RZero, t1) /\ RLt(RZero, t2)) =>
      RSub(RMul(t2, EvalH(c, t2).t.rat), RMul(t1, EvalH(c, t1).t.rat)) = RSub(GInt(c, t2), GInt(c, t1))
\* the segment plan integrates to the same thing as the closed form, for every pair
ASSUME PlanIsIntegral == \A c \in OkCorrs : HasCp(c) =>
  \A t1 \in Probes(<<2>>), t2 \in Probes(<<2>>) :
    PlanInt(c, Plan(t1, t2, TMin(c), TMax(c))) = RSub(GInt(c, t2), GInt(c, t1))
\* G = H - S wherever both exist
ASSUME Gibbs == \A c \in OkCorrs : \A t \in Probes(<<2>>) :
  LET g == EvalG(c, t) hh == EvalH(c, t) ss == EvalS(c, t) IN
  (hh.k # "error" /\ ss.k # "error") => g.t = TSub(hh.t, ss.t)
\* supply order is irrelevant (the constructed correlation does not depend on it)
ASSUME OrderFree == \A j \in MyIdx : LET c == CaseSeq[j] IN
  Build(c) = Build([c EXCEPT !.ord = [k \in 1..Len(c.ord) |-> k]])
\* C06: a value is returned only inside the range, or (with the warning or at T_ref)
\* by a correlation without heat-capacity data
ASSUME RangeGuard == \A c \in OkCorrs : \A t \in Probes(<<2>>), p \in Props :
  LET o == Eval(c, p, t) IN
  /\ (o.k = "value" /\ HasCp(c)) => InRange(c, t)
  /\ (o.k = "warn+value") => ~HasCp(c) /\ t # c.tref

\* ---------------------------------------------------------------- state machine
VARIABLE vcase
MInit == CInit /\ vcase = 0
MConstruct == \E j \in MyIdx : vcase = 0 /\ vcase' = j /\
                LET c == CaseSeq[j] sh == Shapes[c.shape] IN
                IF c.cp THEN DoConstruct([k \in 1..Len(sh.ts) |-> R(sh.ts[c.ord[k]])], sh.P, c.tref, c.hs.h, c.hs.s, c.rng)
                ELSE DoConstruct(<<>>, <<>>, c.tref, c.hs.h, c.hs.s, c.rng)
MEval == vcase > 0 /\ vout.k = "none" /\ UNCHANGED vcase /\
         \E p \in Props, t \in Probes(Shapes[CaseSeq[vcase].shape].ts) : DoEval(p, t)
MNext == MConstruct \/ MEval
\* evaluation never changes the correlation
ReadOnly == [][vcase' = vcase => vcorr' = vcorr]_<<vcorr, vout, vcase>>
OutcomeKinds == vout.k \in {"none", "value", "warn+value", "error"}

Export == JsonSerialize(IOEnv.VOUT,
  [cases |-> [j \in MyIdx |->
     LET c == CaseSeq[j] b == Build(c) sh == Shapes[c.shape] IN
     [case |-> c, ts |-> IF c.cp THEN [k \in 1..Len(sh.ts) |-> sh.ts[c.ord[k]]] ELSE <<>>,
      cps |-> IF c.cp THEN [k \in 1..Len(sh.ts) |-> PolyAt(sh.P, R(sh.ts[c.ord[k]]))] ELSE <<>>,
      built |-> IF b.ok THEN [ok |-> TRUE] ELSE b,
      evals |-> IF b.ok THEN {[p |-> p, t |-> t, o |-> Eval(b.c, p, t)] : p \in Props, t \in Probes(sh.ts)} ELSE {}]],
   total |-> Len(CaseSeq)])
Post == TLCGet("stats").diameter > 0 /\ Export
=============================================================================
