-------------------------------- MODULE Static --------------------------------
(* C14: static well-formedness of a shipped database, as a cursor machine over *)
(* the nine libraries.  The harness reads the YAML files independently         *)
(* (yaml.safe_load) and hands over, per library:                               *)
(*   remaps   : Seq([src, rules : Seq(<<num, den, target>>)]), names as strings *)
(*   groups   : set of names that carry thermochemical data (from the files)    *)
(*   basis    : Seq(name), mat : Seq(Seq(Int)) (entries x 1e5), absent = <<>>   *)
(*   loaded   : names of the loaded library (by name / by path / relocated)     *)
(* TLC decides every clause below for every library and reports the failures.  *)
EXTENDS Integers, Sequences, FiniteSets, TLC, Json, IOUtils, SequencesExt

In == JsonDeserialize(IOEnv.VIN)
Libs == In.libs

Range1(s) == {s[k] : k \in 1..Len(s)}
\* remap rules: each a non-empty list of (number, name); numbers are finite (den > 0)
RemapWF(L) == \A k \in 1..Len(L.remaps) :
  /\ Len(L.remaps[k].rules) > 0
  /\ \A j \in 1..Len(L.remaps[k].rules) : L.remaps[k].rules[j][2] > 0
\* chain-free: no target of a rule is itself remapped (so one substitution step is final)
Sources(L) == {L.remaps[k].src : k \in 1..Len(L.remaps)}
Targets(L) == UNION {{L.remaps[k].rules[j][3] : j \in 1..Len(L.remaps[k].rules)} : k \in 1..Len(L.remaps)}
ChainFree(L) == Sources(L) \cap Targets(L) = {}
\* one rule per source (a YAML mapping, so duplicates would have been merged silently)
\* uncertainty data: square, sized to the basis, symmetric, basis names carry data
HasUQ(L) == L.basis # <<>>
MatrixSquare(L) == Len(L.mat) = Len(L.basis) /\ \A k \in 1..Len(L.mat) : Len(L.mat[k]) = Len(L.basis)
MatrixSymmetric(L) == \A a \in 1..Len(L.mat), b \in 1..Len(L.mat) : L.mat[a][b] = L.mat[b][a]
DiagonalNonNeg(L) == \A a \in 1..Len(L.mat) : L.mat[a][a] >= 0
BasisHasData(L) == \A k \in 1..Len(L.basis) : L.basis[k] \in Range1(L.groups)
BasisDistinct(L) == Cardinality(Range1(L.basis)) = Len(L.basis)
\* the three ways of locating the library give the same group names, and these are
\* exactly the names the files define
SameContents(L) == /\ Range1(L.byname) = Range1(L.bypath) /\ Range1(L.byname) = Range1(L.relocated)
                   /\ Range1(L.byname) = Range1(L.groups)
                   /\ Len(L.byname) = Cardinality(Range1(L.byname))

Clauses(L) ==
  {<<"RemapWF", RemapWF(L)>>, <<"ChainFree", ChainFree(L)>>, <<"SameContents", SameContents(L)>>} \cup
  (IF HasUQ(L) THEN {<<"MatrixSquare", MatrixSquare(L)>>,
                     <<"MatrixSymmetric", MatrixSquare(L) /\ MatrixSymmetric(L)>>,
                     <<"DiagonalNonNeg", MatrixSquare(L) /\ DiagonalNonNeg(L)>>,
                     <<"BasisHasData", BasisHasData(L)>>, <<"BasisDistinct", BasisDistinct(L)>>}
   ELSE {})

VARIABLES vlibidx, vfail
Init == vlibidx = 1 /\ vfail = {}
Next == /\ vlibidx <= Len(Libs)
        /\ vfail' = vfail \cup {<<Libs[vlibidx].name, c[1]>> : c \in {x \in Clauses(Libs[vlibidx]) : ~x[2]}}
        /\ vlibidx' = vlibidx + 1
Done == vlibidx > Len(Libs)
Finish == Done => JsonSerialize(IOEnv.VOUT, [fail |-> SetToSeq(vfail), n |-> Len(Libs), done |-> TRUE])
=============================================================================
