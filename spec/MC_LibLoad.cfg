INIT Init
NEXT Next
INVARIANT OneMeaning
CHECK_DEADLOCK FALSE
