INIT Init
NEXT Next
INVARIANT Finish
CHECK_DEADLOCK FALSE
