CONSTANTS
  Species = {1, 2}
  NRules = 2
  ProcessedOnly = FALSE
  MaxProd = 2
SPECIFICATION MSpec
INVARIANT Within
INVARIANT Complete
INVARIANT NoDupInv
PROPERTY Terminates
CHECK_DEADLOCK FALSE
