CONSTANTS
  MaxLen = 3
INIT MInit
NEXT MNext
INVARIANT NeverPartial
PROPERTY LibReadOnly
POSTCONDITION Post
CHECK_DEADLOCK FALSE
