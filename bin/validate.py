#!/usr/bin/env python3
"""dev helper: validate MANIFEST.json and evidence/*.json against the schemas (run with python3-vt)."""
import json, glob, sys, jsonschema
ok = True
def v(path, schema):
    global ok
    try:
        jsonschema.validate(json.load(open(path)), json.load(open(schema)))
        print('ok', path)
    except Exception as e:
        ok = False
        print('INVALID', path, str(e)[:300])
v('/verif/MANIFEST.json', '/root/.vp/MANIFEST.schema.json')
for p in sorted(glob.glob('/verif/evidence/*.json')):
    v(p, '/root/.vp/EVIDENCE.schema.json')
sys.exit(0 if ok else 1)
