#!/usr/bin/env python3
"""Regenerate MANIFEST.json from harness/registry.json (dev helper)."""
import json, os
here = os.path.dirname(os.path.dirname(os.path.abspath(__file__)))
reg = json.load(open(os.path.join(here, 'harness', 'registry.json')))
props = [json.loads(l) for l in open(os.path.join(here, 'properties.jsonl'))]
checks, na = [], []
for p in props:
    pid = p['id']
    r = reg['checks'].get(pid)
    if r is None:
        na.append({'property_id': pid, 'reason': reg['not_applicable'].get(pid, 'check not built yet in this round; design in DESIGN.md section 4')})
        continue
    checks.append({
        'property_id': pid,
        'quick_cmd': 'bin/check %s quick' % pid,
        'thorough_cmd': 'bin/check %s thorough' % pid,
        'evidence_file': 'evidence/%s.json' % pid,
        'replay_cmd_template': 'bin/check %s --replay {path}' % pid,
        'engine': 'tlc',
        'level_claimed': {'category': 'model_checking', 'text': r['text'], 'design_ref': r.get('design_ref', 'DESIGN.md section 4 ' + pid)},
        'level_note': r['note'],
        'technique': r['technique'],
    })
m = {
    'version': 1,
    'setup_cmd': 'bin/setup',
    'hooks': {
        'guard': 'PGRADD_VERIF',
        'enable': 'PGRADD_VERIF=1 in the environment of the harness process (bin/check sets it); pgradd is pure Python, nothing is rebuilt',
        'baseline_off_cmd': 'cd /repo && env -u PGRADD_VERIF /venv/bin/python -m pytest -ra -q -p no:cacheprovider --timeout=900 --continue-on-collection-errors',
        'source_commits': reg.get('hook_commits', []),
        'add_only': True,
    },
    'engines': [{'name': 'tlc', 'path': 'spec/', 'serves_properties': [c['property_id'] for c in checks],
                 'kind_free_text': 'explicit TLA+ specifications checked with TLC 1.8 (exhaustive + simulation), bound to pgradd by replaying TLC-generated cases into the code and validating traces recorded from the code against Trace_*.tla'}],
    'checks': checks,
    'not_applicable': na,
    'notes': reg.get('notes', ''),
}
json.dump(m, open(os.path.join(here, 'MANIFEST.json'), 'w'), indent=1)
print('checks:', len(checks), 'not_applicable:', len(na))
