"""Shared by C05 and C06: binding of Correlation.tla to ThermochemRawData,
ThermochemIncomplete and ThermochemGroup."""
import math
import random
from fractions import Fraction

import numpy as np
from scipy.integrate import quad

from .common import use_repo, call, MachineryError

use_repo()
import pgradd.ThermoChem                                               # noqa: E402,F401
from pgradd.ThermoChem import (ThermochemRawData, ThermochemIncomplete,   # noqa: E402
                               ThermochemGroup)
from pgradd.GroupAdd.Library import GroupLibrary                       # noqa: E402

GRID = 100.0       # one grid unit = 100 K
LIBS = ['BensonGA', 'GRWAqueous2018', 'GRWSurface2018', 'GuSolventGA2017Aq',
        'GuSolventGA2017Vac', 'PPY', 'PtSurface2023', 'SalciccioliGA2012',
        'XieGA2022']
RANGE_ERRS = ('OutsideCorrelationError', 'IncompleteDataError')


def fr(x):
    return Fraction(x[0], x[1])


def term_value(t):
    v = float(fr(t['rat']))
    for c, a in t['lns']:
        v += float(fr(c)) * math.log(float(fr(a)))
    return v


def classify(kind, v, warns):
    """outcome of a getter -> (class record, float or None)"""
    if kind == 'error':
        return {'k': 'error', 'cls': type(v).__name__}, None
    plain = isinstance(v, (float, int, np.floating, np.integer)) and \
        not isinstance(v, bool)
    if not plain:
        return {'k': 'notplain', 'cls': type(v).__name__}, None
    if not math.isfinite(float(v)):
        return {'k': 'nonfinite', 'cls': repr(v)}, None
    k = 'warn+value' if 'IncompleteDataWarning' in warns else 'value'
    return {'k': k}, float(v)


def err_matches(spec_cls, obs_cls, raw):
    if spec_cls == 'incomplete':
        return obs_cls == 'IncompleteDataError'
    if spec_cls == 'range':
        return obs_cls in (('OutsideCorrelationError',) if raw else RANGE_ERRS)
    return obs_cls == spec_cls


GETTERS = {'Cp': 'get_CpoR', 'H': 'get_HoRT', 'S': 'get_SoR', 'G': 'get_GoRT'}


def build_objects(case):
    """the correlation of an exported case as real objects:
    list of (label, raw?, constructor outcome)"""
    c = case['case']
    ts = [GRID * t for t in case['ts']]
    cps = [float(fr(v)) for v in case['cps']]
    tref = GRID * float(fr(c['tref']))
    rng = (GRID * float(fr(c['rng'][0])), GRID * float(fr(c['rng'][1]))) if c['rng'] else None
    h = float(fr(c['hs']['h'][0])) if c['hs']['h'] else None
    s = float(fr(c['hs']['s'][0])) if c['hs']['s'] else None
    objs = []
    if c['cp'] and h is not None and s is not None:
        objs.append(('ThermochemRawData', True,
                     call(ThermochemRawData, h, s, list(ts), list(cps), tref, rng)))
        # the caller's arrays are reused for something else afterwards (a work buffer): the
        # correlation must keep the data it was given
        a_ts, a_cps = np.array(ts, dtype=float), np.array(cps, dtype=float)
        res = call(ThermochemRawData, h, s, a_ts, a_cps, tref, rng)
        a_cps[:] = -7.0
        a_ts[:] = a_ts + 13.0
        objs.append(('ThermochemRawData[ndarray, overwritten by the caller afterwards]', True, res))
    data = dict(zip(ts, cps))
    objs.append(('ThermochemIncomplete', False,
                 call(ThermochemIncomplete, h, s, data, tref, rng)))
    objs.append(('ThermochemGroup', False,
                 call(ThermochemGroup, h, s, data, tref, rng)))
    return objs


def describe_case(case):
    c = case['case']
    return ('Ts=%s Cp/R=%s T_ref=%s range=%s H_ref=%s S_ref=%s'
            % ([GRID * t for t in case['ts']],
               [str(fr(v)) for v in case['cps']], GRID * float(fr(c['tref'])),
               [GRID * float(fr(x)) for x in c['rng']] or None,
               [str(fr(x)) for x in c['hs']['h']] or None,
               [str(fr(x)) for x in c['hs']['s']] or None))


def replay_case(case, report):
    """report(tag, key, what) with tag 'value' (C05) or 'class' (C06)"""
    n = 0
    desc = describe_case(case)
    for label, raw, (kind, obj, _) in build_objects(case):
        want_ok = case['built']['ok']
        if kind == 'error':
            if want_ok or type(obj).__name__ != case['built'].get('cls'):
                report('class', 'construct:%s:%s' % (label, desc),
                       '%s(%s) raised %s: %s; spec expects %s'
                       % (label, desc, type(obj).__name__, str(obj)[:80],
                          'a correlation' if want_ok else case['built'].get('cls')))
            continue
        if not want_ok:
            report('class', 'construct:%s:%s' % (label, desc),
                   '%s(%s) was accepted; spec expects %s'
                   % (label, desc, case['built'].get('cls')))
            continue
        for ev in case['evals']:
            T = GRID * float(fr(ev['t']))
            k2, v, warns = call(getattr(obj, GETTERS[ev['p']]), T)
            o, val = classify(k2, v, warns)
            x = ev['o']
            n += 1
            key = '%s.%s(T=%g):%s' % (label, GETTERS[ev['p']], T, desc)
            if x['k'] == 'error':
                if not (o['k'] == 'error' and err_matches(x['cls'], o['cls'], raw)):
                    report('class', key,
                           '%s.%s(%g) on %s -> %s; spec expects error (%s)'
                           % (label, GETTERS[ev['p']], T, desc, o, x['cls']))
                else:
                    # the same temperature handed over as a one-element array is as far outside
                    # the range: an answer without any signal is the unsignalled value C06 forbids
                    k4, v4, w4 = call(getattr(obj, GETTERS[ev['p']]), np.array([float(T)]))
                    n += 1
                    if k4 == 'value' and not w4:
                        report('class', key + ':array',
                               '%s.%s(array([%g])) on %s -> %r without error or warning; the scalar %g '
                               'raises %s (outside the valid range)'
                               % (label, GETTERS[ev['p']], T, desc, v4, T, o['cls']))
                continue
            if o['k'] != x['k']:
                report('class', key, '%s.%s(%g) on %s -> %s; spec expects %s'
                       % (label, GETTERS[ev['p']], T, desc, o, x['k']))
                continue
            xv = term_value(x['t'])
            tol = 1e-9 if ev['p'] in ('Cp', 'H') else 5e-7
            if abs(val - xv) > tol * max(1.0, abs(xv)):
                report('value', key, '%s.%s(%g) on %s = %r; spec expects %r'
                       % (label, GETTERS[ev['p']], T, desc, val, xv))
                continue
            # the same temperature written as an integer is the same temperature
            if T == int(T):
                for Ti in (int(T), np.int64(int(T))):
                    k3, v3, w3 = call(getattr(obj, GETTERS[ev['p']]), Ti)
                    o3, val3 = classify(k3, v3, w3)
                    n += 1
                    if o3['k'] != o['k'] or (val3 is not None and abs(val3 - xv) > tol * max(1.0, abs(xv))):
                        report('value' if o3['k'] == o['k'] else 'class', key + ':int',
                               '%s.%s(%r as %s) on %s -> %s %r; with the float %r it is %r (spec %r)'
                               % (label, GETTERS[ev['p']], int(T), type(Ti).__name__, desc, o3, val3, T, val, xv))
                        break
    return n


def run_mc(ctx, cfg):
    outs = ctx.tlc_shards('MC_Correlation', cfg, nshards=16, timeout=3000)
    total = outs[0]['total']
    cases = {}
    for o in outs:
        for j, c in o['cases'].items():
            cases[int(j)] = c
    if len(cases) != total:
        raise MachineryError('shards returned %d of %d cases' % (len(cases), total))
    return [cases[j] for j in sorted(cases)]


# ---------------------------------------------------------------- general tables
def rank_trace(obj_factory, ts, cps, tref, rng, h, s, probes, label):
    """Build one Trace_Correlation trace for a general table.  Temperatures are
    replaced by their ranks.  Returns (events, numeric side data)."""
    temps = sorted(set(list(ts) + [tref] + list(rng or []) + list(probes)))
    rank = {t: i + 1 for i, t in enumerate(temps)}
    kind, obj, _ = obj_factory()
    ev0 = {'op': 'construct', 'ts': [rank[t] for t in ts], 'tref': rank[tref],
           'rng': [rank[rng[0]], rank[rng[1]]] if rng else [],
           'h': [0] if h is not None else [], 's': [0] if s is not None else [],
           'obs': ({'ok': True} if kind == 'value'
                   else {'ok': False, 'cls': type(obj).__name__})}
    evs = [ev0]
    side = [None]
    if kind == 'error':
        return evs, side, None
    for p in ('Cp', 'H', 'S', 'G'):
        for T in probes:
            k2, v, warns = call(getattr(obj, GETTERS[p]), T)
            o, val = classify(k2, v, warns)
            if T == int(T):
                # the same temperature given as an integer: if that answers differently, it is that
                # answer which is validated (and rejected) below
                k3, v3, w3 = call(getattr(obj, GETTERS[p]), int(T))
                o3, val3 = classify(k3, v3, w3)
                if o3 != o or (val is not None and val3 is not None and abs(val3 - val) > 1e-12 * max(1.0, abs(val))):
                    o, val = o3, val3
            evs.append({'op': 'eval', 'prop': p, 't': rank[T], 'obs': o})
            side.append((p, T, val))
    # temperatures handed over as one integer-typed array answer like the same temperatures one by one
    whole = [T for T in probes if T == int(T) and T > 0]
    if len(whole) >= 2 and kind != 'error':
        vals = dict(((p_, T_), v_) for (p_, T_, v_) in side[1:])
        for p in ('Cp', 'H', 'S'):
            inside = [T for T in whole if vals.get((p, T)) is not None]      # answered one by one
            if len(inside) < 2:
                continue
            k3, arr, w3 = call(getattr(obj, GETTERS[p]), np.array([int(T) for T in inside]))
            if k3 == 'error' or np.ndim(arr) != 1 or len(arr) != len(inside):
                continue          # array arguments are not part of the statement: only answers are compared
            for T, a_ in zip(inside, arr):
                ref = vals.get((p, T))
                if ref is not None and abs(float(a_) - ref) > 1e-12 * max(1.0, abs(ref)):
                    idx = [i for i, sd in enumerate(side) if sd and sd[0] == p and sd[1] == T][0]
                    side[idx] = (p, T, float(a_))
    return evs, side, (obj, temps)


def check_how(obj, temps, table, tref, h, s, evs, side, hows, report, label, counters):
    """numeric part for a general table: evaluate how TLC says each value is
    determined (table entry / reference / plan / H-S) and compare."""
    ts_sorted = sorted(table)
    cps_sorted = [table[t] for t in ts_sorted]
    vals = {}
    for (ev, sd) in zip(evs[1:], side[1:]):
        vals[(sd[0], sd[1])] = sd[2]

    def cpstar(t):
        k, v, _ = call(obj.get_CpoR, t)
        return float(v)

    for ev, sd, how in zip(evs[1:], side[1:], hows[1:]):
        p, T, val = sd
        if how.get('k') not in ('value', 'warn+value') or val is None:
            continue
        w = how['how']
        exp = None
        tol = 1e-9
        if w == 'ref':
            exp = h if p == 'H' else s
        elif w == 'table':
            if how['idx'] > 0:
                exp = cps_sorted[how['idx'] - 1]
            counters['table'] += 1
        elif w == 'H-S':
            hv, sv = vals.get(('H', T)), vals.get(('S', T))
            if hv is not None and sv is not None:
                exp = hv - sv
        elif w == 'plan':
            tot = 0.0
            for sg in how['plan']['segs']:
                a = temps[sg['a'][0] - 1]
                b = temps[sg['b'][0] - 1]
                if sg['kind'] == 'low':
                    cpv = cps_sorted[0]
                    tot += cpv * (b - a) if p == 'H' else cpv * math.log(b / a)
                elif sg['kind'] == 'high':
                    cpv = cps_sorted[-1]
                    tot += cpv * (b - a) if p == 'H' else cpv * math.log(b / a)
                else:
                    counters['quadrature_leaves'] += 1
                    pts = [t for t in ts_sorted if a < t < b]
                    if p == 'H':
                        tot += quad(cpstar, a, b, points=pts or None, limit=200,
                                    epsabs=1e-11, epsrel=1e-11)[0]
                    else:
                        tot += quad(lambda t: cpstar(t) / t, a, b, points=pts or None,
                                    limit=200, epsabs=1e-11, epsrel=1e-11)[0]
                    tol = 2e-6
            tot *= how['plan']['sign']
            exp = (tref * h + tot) / T if p == 'H' else s + tot
            if p == 'S':
                tol = max(tol, 2e-6)
        if exp is None:
            continue
        counters['values'] += 1
        if abs(val - exp) > tol * max(1.0, abs(exp)):
            report('value', '%s.%s(T=%g)' % (label, GETTERS[p], T),
                   '%s: %s(%g) = %r but the data determine %r (%s)'
                   % (label, GETTERS[p], T, val, exp, w))


def shipped_groups(libs=None):
    """every (library, group name, correlation) with thermochem data"""
    for name in (libs or LIBS):
        kind, lib, _ = call(GroupLibrary.Load, name)
        if kind == 'error':
            yield name, None, lib
            continue
        for g in lib:
            if 'thermochem' in lib[g]:
                yield name, str(g), lib[g]['thermochem']


def group_probes(c, rng_):
    ts = sorted(c.ND_Cp_data) if c.ND_Cp_data else []
    r = c.get_range()
    pr = set(ts)
    pr.add(float(c.T_ref))
    if r is not None:
        lo, hi = float(r[0]), float(r[1])
        pr.update([lo, hi, np.nextafter(lo, -1e9), np.nextafter(hi, 1e9),
                   np.nextafter(lo, 1e9), np.nextafter(hi, -1e9)])
        if ts:
            for _ in range(3):
                pr.add(round(rng_.uniform(lo, hi), 3))
            if hi > ts[-1]:
                pr.add((hi + ts[-1]) / 2)
            if lo < ts[0]:
                pr.add((lo + ts[0]) / 2)
    pr.update([0.0, -10.0, 5000.0])
    # right beside the reference temperature (a correlation without Cp data answers there with the warning)
    tr = float(c.T_ref)
    pr.update([tr + 0.1, tr - 0.1, tr + 1e-6, np.nextafter(tr, 1e9)])
    return sorted(float(x) for x in pr)
