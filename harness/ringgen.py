"""Generator of RING texts (fragments and rules) with random layout and label
names, and token-level mutations.  Used by C09 (corpus), C08 (fragments as
structures + texts) and C16 (rules)."""
import random
import re

SYMBOLS = ['C', 'O', 'H', 'N', 'S', 'Pt', 'Ru', '$', '&', 'X', 'any atom', 'heteroatom', 'heavy atom', 'M', 'Si', 'Cl']
ELEMENTS = ['C', 'O', 'H', 'N', 'S', 'Pt', 'Ru']
PREFIXES = ['aromatic', 'nonaromatic', 'ringatom', 'nonringatom', 'allylic']
SUFFIXES = ['+', '-', '.', ':', '+.', '-.', '?', ':.']
BONDS = ['single', 'double', 'triple', 'ring', 'nonring', 'aromatic', 'any', 'strong', 'partial', 'quadruple']
OPS = ['', '=', '>', '<', '>=', '<=']
MOLPREFIX = [[], [], [], ['neutral'], ['positive'], ['negative'], ['aromatic'], ['olefinic'], ['paraffinic'],
             ['cyclic'], ['linear'], ['neutral', 'cyclic'], ['olefinic', 'linear'], ['neutral', 'paraffinic', 'linear']]


def atomtype(rng, simple=False):
    t = {'prefix': '', 'sym': rng.choice(ELEMENTS if simple else SYMBOLS), 'suffix': ''}
    if not simple and rng.random() < .2:
        t['prefix'] = rng.choice(PREFIXES)
    if rng.random() < (.1 if simple else .3):
        t['suffix'] = rng.choice(SUFFIXES)
    return t


def constraint(rng):
    r = rng.random()
    neg = rng.random() < .25
    cn = {'op': rng.choice(OPS), 'n': rng.randint(0, 4)}
    if r < .55:
        c = {'kind': 'conn', 'neg': neg, 'cn': cn if rng.random() < .7 else None,
             'nb': atomtype(rng), 'bond': rng.choice(BONDS + [None, None, None])}
    elif r < .7:
        c = {'kind': 'ringsize', 'neg': neg, 'cn': {'op': cn['op'], 'n': rng.randint(3, 7)}}
    elif r < .85:
        c = {'kind': 'radical', 'neg': neg, 'cn': {'op': cn['op'], 'n': rng.randint(0, 2)}}
    else:
        c = {'kind': 'nring', 'neg': neg, 'cn': {'op': cn['op'], 'n': rng.randint(0, 2)}}
    return c


def fragment(rng, natoms=None, simple=False, max_cons=2):
    n = natoms or rng.choice([1, 1, 2, 2, 3, 3, 4, 5, 6, 8])
    f = {'molprefix': [] if simple else rng.choice(MOLPREFIX), 'name': 'f%d' % rng.randint(0, 99),
         'items': []}
    for k in range(n):
        a = {'kind': 'atom', 'type': atomtype(rng, simple), 'cons': []}
        if not simple:
            for _ in range(rng.choice([0, 0, 0, 1, 1, 2][:max_cons + 4])):
                a['cons'].append(constraint(rng))
        if k > 0:
            a['to'] = rng.randrange(k)
            a['bond'] = rng.choice(BONDS if not simple else ['single', 'single', 'double', 'triple'])
        f['items'].append(a)
    natom = n
    if not simple and natom >= 3 and rng.random() < .3:
        # a ring closure between two atoms not yet bonded
        pairs = [(i, j) for i in range(natom) for j in range(i + 1, natom)
                 if f['items'][j].get('to') != i and f['items'][i].get('to') != j]
        if pairs:
            i, j = rng.choice(pairs)
            f['items'].append({'kind': 'ringbond', 'a': i, 'b': j, 'bond': rng.choice(BONDS)})
    return f


def _atomtype_text(t):
    return (t['prefix'] + ' ' if t['prefix'] else '') + t['sym'] + t['suffix']


def _cn_text(cn):
    return '' if cn is None else '%s%d' % (cn['op'], cn['n'])


def _constraint_text(c):
    neg = '! ' if c['neg'] else ''
    if c['kind'] == 'conn':
        s = neg + 'connected to ' + _cn_text(c['cn']) + ' ' + _atomtype_text(c['nb'])
        if c['bond']:
            s += ' with ' + c['bond'] + ' bond'
        return s
    if c['kind'] == 'ringsize':
        return neg + 'in ring of size ' + _cn_text(c['cn'])
    if c['kind'] == 'radical':
        return neg + 'has ' + _cn_text(c['cn']) + ' radical electrons'
    return neg + 'in ' + _cn_text(c['cn']) + ' ring'


def labels_for(rng, n):
    style = rng.choice(['c%d', 'a%d', 'L_%d', 'atom%d', 'x%dy', '%d'])
    base = rng.randint(0, 50)
    return [style % (base + k) for k in range(n)]


def fragment_tokens(f, labels, keyword='fragment'):
    toks = list(f['molprefix']) + [keyword, f['name'], '{']
    ai = 0
    for it in f['items']:
        if it['kind'] == 'atom':
            toks += [_atomtype_text(it['type']), 'labeled', labels[ai]]
            if 'to' in it:
                toks += [it['bond'], 'bond to', labels[it['to']]]
            if it['cons']:
                toks.append('{')
                for k, c in enumerate(it['cons']):
                    if k:
                        toks.append(',')
                    toks.append(_constraint_text(c))
                toks.append('}')
            ai += 1
        elif it['kind'] == 'ringbond':
            toks += ['ringbond', labels[it['a']], it['bond'], 'bond to', labels[it['b']]]
        elif it['kind'] == 'stereo':
            toks += ['stereo double bond', labels[it['a']], ('! ' if it.get('neg') else '') + it['st'], 'to',
                     labels[it['b']], 'for double bond between', labels[it['c']], 'and', labels[it['d']]]
    toks.append('}')
    return toks


def layout(rng, toks, wild=True):
    """join tokens with random filler (space, newline, tab); optional filler around braces"""
    seps = [' ', ' ', ' ', '\n', '\t', '  ', ' \n ', '\n\n'] if wild else [' ']
    out = rng.choice(['', ' ', '\n']) if wild else ''
    for k, t in enumerate(toks):
        out += t
        if k + 1 < len(toks):
            nxt = toks[k + 1]
            if wild and (t in '{(,' or nxt in '}),{(') and rng.random() < .4:
                out += ''
            else:
                out += rng.choice(seps)
    return out + (rng.choice(['', ' ', '\n']) if wild else '')


def fragment_text(rng, f, wild=True, labels=None):
    n = sum(1 for it in f['items'] if it['kind'] == 'atom')
    labels = labels or labels_for(rng, n)
    return layout(rng, fragment_tokens(f, labels), wild), labels


# ---------------------------------------------------------------- rules
EDITS = ['break', 'form', 'increase', 'decrease', 'radinc', 'raddec', 'radset', 'chginc', 'chgdec', 'modify']


def rule(rng, balanced=True):
    """a unimolecular rule: reactant fragment (1..4 simple atoms) + edits"""
    n = rng.choice([1, 2, 2, 3, 3, 4])
    f = fragment(rng, natoms=n, simple=True)
    for it in f['items']:
        it['type']['suffix'] = rng.choice(['', '', '', '.']) if it['type']['suffix'] == '' else it['type']['suffix']
        if it['type']['suffix'] not in ('', '.'):
            it['type']['suffix'] = ''
    bonds = [(k, it['to'], it['bond']) for k, it in enumerate(f['items']) if 'to' in it]
    edits = []
    bal = [0] * n
    order = {'single': 1, 'double': 2, 'triple': 3}
    mismatch = False
    for _ in range(rng.choice([1, 2, 2, 3, 4])):
        r = rng.random()
        if r < .3 and bonds:
            a, b, kind = rng.choice(bonds)
            # (now and then an untyped break of a multiple bond: not balanced under any reading, must be refused)
            typed = rng.random() < (.7 if kind == 'single' else .9)
            edits.append(('break', a, b, kind if typed else None))
            mismatch = mismatch or (not typed and kind != 'single')
            bal[a] += order[kind]
            bal[b] += order[kind]
            bonds.remove((a, b, kind))
        elif r < .45 and n >= 2:
            cands = [(i, j) for i in range(n) for j in range(i + 1, n)
                     if not any({x, y} == {i, j} for x, y, _ in bonds)]
            if cands:
                a, b = rng.choice(cands)
                kind = rng.choice(['single', 'double'])
                edits.append(('form', a, b, kind if rng.random() < .6 or kind != 'single' else None))
                bal[a] -= order[kind]
                bal[b] -= order[kind]
        elif r < .6 and bonds:
            a, b, kind = rng.choice(bonds)
            if kind in ('double', 'triple'):
                edits.append(('decrease', a, b, None))
                bal[a] += 1
                bal[b] += 1
            else:
                edits.append(('increase', a, b, None))
                bal[a] -= 1
                bal[b] -= 1
        else:
            a = rng.randrange(n)
            k = rng.choice(['radinc', 'raddec', 'chginc', 'chgdec'])
            edits.append((k, a, None, None))
            bal[a] += {'radinc': -1, 'raddec': 1, 'chginc': -1, 'chgdec': 1}[k]
    # a bond that is not broken may leave its order open in the pattern: the balance of an
    # order increase / decrease does not depend on the order that is matched
    for a, b, kind in bonds:
        if rng.random() < .25:
            f['items'][a]['bond'] = rng.choice(['any', 'nonring'])
    if balanced:
        for a in range(n):
            while bal[a] > 0:
                edits.append(('radinc', a, None, None))
                bal[a] -= 1
            while bal[a] < 0:
                edits.append(('raddec', a, None, None))
                bal[a] += 1
        rng.shuffle(edits)
    return {'frag': f, 'edits': edits, 'name': 'r%d' % rng.randint(0, 99), 'balanced': all(x == 0 for x in bal) and not mismatch}


def rule_tokens(r, labels):
    toks = ['rule', r['name'], '{'] + fragment_tokens(r['frag'], labels, keyword='reactant')
    for e in r['edits']:
        k, a, b, kind = e
        if k in ('break', 'form'):
            toks += [k] + ([kind] if kind else []) + ['bond', '(', labels[a], ',', labels[b], ')']
        elif k == 'increase':
            toks += ['increase bond order', '(', labels[a], ',', labels[b], ')']
        elif k == 'decrease':
            toks += ['decrease bond order', '(', labels[a], ',', labels[b], ')']
        elif k == 'modify':
            toks += ['modify bond', '(', labels[a], ',', labels[b], ',', kind, ')']
        elif k == 'radinc':
            toks += ['increase number of radical', '(', labels[a], ')']
        elif k == 'raddec':
            toks += ['decrease number of radical', '(', labels[a], ')']
        elif k == 'radset':
            toks += ['modify number of radical', '(', labels[a], ',', str(b), ')']
        elif k == 'chginc':
            toks += ['increase formal charge', '(', labels[a], ')']
        elif k == 'chgdec':
            toks += ['decrease formal charge', '(', labels[a], ')']
    toks.append('}')
    return toks


def rule_text(rng, r, wild=True, labels=None):
    n = sum(1 for it in r['frag']['items'] if it['kind'] == 'atom')
    labels = labels or labels_for(rng, n)
    return layout(rng, rule_tokens(r, labels), wild), labels


# ---------------------------------------------------------------- mutation
_TOK = re.compile(r'[A-Za-z0-9_]+|[^\sA-Za-z0-9_]')
VOCAB = ['fragment', 'rule', 'reactant', 'labeled', 'single', 'double', 'bond', 'to', 'ringbond', 'connected',
         'with', 'in', 'ring', 'of', 'size', 'has', 'radical', 'electrons', 'group', 'C', 'O', 'Pt', 'c1', 'zz9',
         '{', '}', '(', ')', ',', '!', '=', '>', '>=', '$', '&', '?', '.', ':', '+', '-', '*', '2', '0', '||',
         'break', 'form', 'increase', 'decrease', 'order', 'number', 'modify', 'constraints', 'cis', 'stereo',
         'aromatic', 'any', 'atom', 'X', 'M', 'Zz', 'duplicates', '=>', 'is', 'cyclic', 'contains']


def tokens(text):
    return _TOK.findall(text)


def mutants(rng, text, per_kind=None):
    """single-token deletions, duplications, substitutions, insertions, and prefixes"""
    toks = tokens(text)
    out = []
    idx = list(range(len(toks)))
    pick = idx if per_kind is None else sorted(rng.sample(idx, min(per_kind, len(idx))))
    for k in pick:
        out.append(' '.join(toks[:k] + toks[k + 1:]))
        out.append(' '.join(toks[:k + 1] + toks[k:]))
        out.append(' '.join(toks[:k] + [rng.choice(VOCAB)] + toks[k + 1:]))
        out.append(' '.join(toks[:k] + [rng.choice(VOCAB)] + toks[k:]))
        out.append(' '.join(toks[:k]))
    # character-level truncations
    for _ in range(3 if per_kind else 6):
        out.append(text[:rng.randint(0, len(text))])
    return out


def noise(rng, n):
    pool = 'abcXYZ019 _{}(),!<>=.$&?:+-*\n\t' + 'éλ中🙂  '
    return [''.join(rng.choice(pool) for _ in range(rng.randint(0, 40))) for _ in range(n)]
