"""Shared by C01 / C06 / C07 / C20: binding of Estimate.tla to GroupLibrary.Estimate
and ThermochemGroupAdditive."""
import math
import os
import random
import re
from fractions import Fraction

import numpy as np
import yaml

from .common import use_repo, call, MachineryError, REPO
from . import corrlib as cl

use_repo()
import pgradd.ThermoChem                                           # noqa: E402,F401
from pgradd.GroupAdd.Library import GroupLibrary                   # noqa: E402
from pmutt import constants as pc                                  # noqa: E402
from rdkit import Chem                                             # noqa: E402
from rdkit.Chem import rdMolDescriptors                            # noqa: E402

fr = cl.fr
GRID = cl.GRID
ENERGY_UNITS = ['J/mol', 'kJ/mol', 'L kPa/mol', 'cm3 kPa/mol', 'm3 Pa/mol',
                'cm3 MPa/mol', 'm3 bar/mol', 'L bar/mol', 'L torr/mol', 'cal/mol',
                'kcal/mol', 'L atm/mol', 'cm3 atm/mol', 'eV', 'Eh', 'Ha']
def uq_libs():
    """libraries whose library.yaml includes uq.yaml (read independently)"""
    out = []
    for name in cl.LIBS:
        p = os.path.join(REPO, 'pgradd', 'data', name, 'library.yaml')
        with open(p) as f:
            y = yaml.safe_load(f)
        if any('uq' in str(i) for i in (y.get('include') or [])):
            out.append(name)
    return out


# ------------------------------------------------------------ synthetic library
def _corr_yaml(c, indent):
    pad = ' ' * indent
    lines = [pad + 'T_ref: %r K' % (GRID * float(fr(c['tref'])))]
    if c['h']:
        lines.append(pad + 'ND_H_ref: %r' % float(fr(c['h'][0])))
    if c['s']:
        lines.append(pad + 'ND_S_ref: %r' % float(fr(c['s'][0])))
    if c['ts']:
        lines.append(pad + 'ND_Cp_data:')
        for t in c['ts']:
            tv = fr(t)
            cp = sum(Fraction(co) * tv ** k for k, co in enumerate(c['P']))
            lines.append(pad + '  - [%r K, %r]' % (GRID * float(tv), float(cp)))
    if c['rng']:
        lines.append(pad + 'range: [%r K, %r K]' % (GRID * float(fr(c['rng'][0])),
                                                    GRID * float(fr(c['rng'][1]))))
    return lines


def write_synth(d, lib, uq=None, rmse=None):
    with open(os.path.join(d, 'scheme.yaml'), 'w') as f:
        f.write('patterns: []\n')
    lines = ['groups:']
    for g in sorted(lib):
        c = lib[g]
        if 'nodata' in c:
            lines.append('  %s: {}' % g)
            continue
        lines.append('  %s:' % g)
        lines.append('    thermochem:')
        lines += _corr_yaml(c, 6)
    if uq:
        lines.append('UQ:')
        lines.append('  RMSE:')
        lines.append("    'thermochem':")
        lines += _corr_yaml(rmse, 6)
        lines.append('  DOF: 10')
        lines.append('  InvCovMat:')
        lines.append('    groups: [%s]' % ', '.join(uq['basis']))
        lines.append('    mat:')
        for row in uq['M']:
            lines.append('      - [%s]' % ', '.join(repr(float(fr(x))) for x in row))
    with open(os.path.join(d, 'library.yaml'), 'w') as f:
        f.write('\n'.join(lines) + '\n')
    return os.path.join(d, 'library.yaml')


def run_mc(ctx, cfg):
    outs = ctx.tlc_shards('MC_Estimate', cfg, nshards=16, timeout=3000)
    total = outs[0]['total']
    maps = {}
    for o in outs:
        for j, c in o['maps'].items():
            maps[int(j)] = c
    if len(maps) != total:
        raise MachineryError('shards returned %d of %d mappings' % (len(maps), total))
    return outs[0], [maps[j] for j in sorted(maps)]


def show_map(x):
    return '{' + ', '.join('%s: %s' % (g, fr(c)) for g, c in x) + '}'


def pymap(x):
    return dict((g, (int(fr(c)) if fr(c).denominator == 1 else float(fr(c)))) for g, c in x)


def replay_maps(ctx, head, maps, lib, report, with_se):
    """spec -> code over the synthetic library.
    report(tag, key, what): tag in {'sum', 'missing', 'class', 'range', 'se'}"""
    n = 0
    singles = dict((m['x'][0][0], m) for m in maps
                   if len(m['x']) == 1 and fr(m['x'][0][1]) > 0 and m.get('q'))

    def se_check(est, xs, q, note=''):
        k = 0
        for ev in head['rmse_evals']:
            if ev['o']['k'] != 'value':
                continue
            T = GRID * float(fr(ev['t']))
            exp = abs(cl.term_value(ev['o']['t'])) * math.sqrt(q)
            k2, v, warns = call(getattr(est, cl.GETTERS[ev['p']] + '_SE'), T)
            o, val = cl.classify(k2, v, warns)
            k += 1
            key = 'estimate(%s).%s_SE(%g)%s' % (xs, cl.GETTERS[ev['p']], T, note)
            if o['k'] != 'value':
                report('se', key, '%s -> %s; spec expects the plain number %r' % (key, o, exp))
            elif abs(val - exp) > 2e-6 * max(1.0, abs(exp)) or val < 0:
                report('se', key, '%s = %r; spec expects |RMSE|*sqrt(x\'Mx) = %r' % (key, val, exp))
        return k

    for m in maps:
        x = m['x']
        xs = show_map(x)
        kind, est, _ = call(lib.Estimate, pymap(x), 'thermochem')
        want = m['est']
        n += 1
        if not want['ok']:
            ok = (kind == 'error' and type(est).__name__ == want['cls']
                  and sorted(str(g) for g in est.groups) == sorted(want['groups'])
                  and len(est.groups) == len(want['groups']))
            if not ok:
                report('missing', 'estimate:' + xs,
                       'Estimate(%s) -> %s; spec expects %s naming exactly %s'
                       % (xs, ('%s%s' % (type(est).__name__, [str(g) for g in getattr(est, 'groups', [])])
                               if kind == 'error' else 'an estimate'),
                          want['cls'], sorted(want['groups'])))
            continue
        if with_se and not m['inb']:
            if kind != 'error':
                report('se', 'estimate-outside-basis:' + xs,
                       'Estimate(%s) with a descriptor outside the uncertainty basis was '
                       'accepted' % xs)
            # the refusal leaves nothing behind: an unrelated valid mapping asked next is unaffected
            free = [g for g in sorted(singles) if g not in [a for a, _ in x]]
            if free:
                ms = singles[free[0]]
                k3, est3, _ = call(lib.Estimate, pymap(ms['x']), 'thermochem')
                if k3 == 'value':
                    n += se_check(est3, show_map(ms['x']), float(fr(ms['q'][0])), ' [asked right after the refused %s]' % xs)
            continue
        if kind == 'error':
            report('missing', 'estimate:' + xs, 'Estimate(%s) raised %s: %s; spec expects an estimate'
                   % (xs, type(est).__name__, str(est)[:100]))
            continue
        r = est.get_range()
        wr = want['rng']
        rr = None if not wr else (GRID * float(fr(wr[0])), GRID * float(fr(wr[1])))
        if (r is None) != (rr is None) or (r is not None and
                                            (abs(r[0] - rr[0]) > 1e-9 or abs(r[1] - rr[1]) > 1e-9)):
            report('range', 'range:' + xs, 'Estimate(%s).get_range() = %r; spec expects the '
                   'intersection %r' % (xs, r, rr))
        for ev in m['evals']:
            T = GRID * float(fr(ev['t']))
            k2, v, warns = call(getattr(est, cl.GETTERS[ev['p']]), T)
            o, val = cl.classify(k2, v, warns)
            xo = ev['o']
            n += 1
            key = 'estimate(%s).%s(%g)' % (xs, cl.GETTERS[ev['p']], T)
            if xo['k'] == 'error':
                if not (o['k'] == 'error' and o['cls'] == 'IncompleteDataError'):
                    report('class', key, '%s -> %s; spec expects IncompleteDataError' % (key, o))
                continue
            if o['k'] != xo['k']:
                report('class', key, '%s -> %s; spec expects %s' % (key, o, xo['k']))
                continue
            xv = cl.term_value(xo['t'])
            tol = 1e-9 if ev['p'] in ('Cp', 'H') else 2e-6
            if abs(val - xv) > tol * max(1.0, abs(xv)):
                report('sum', key, '%s = %r; spec expects %r' % (key, val, xv))
        # every count doubled: the sum doubles (theorem Scaling of MC_Estimate), asked of the same library object
        if not with_se and m['evals']:
            x2 = [[g, [2 * c[0], c[1]]] for g, c in x]
            k4, est2, _ = call(lib.Estimate, pymap(x2), 'thermochem')
            if k4 == 'error':
                report('missing', 'estimate:' + show_map(x2), 'Estimate(%s) raised %s; spec expects an estimate (as for %s)'
                       % (show_map(x2), type(est2).__name__, xs))
            else:
                for ev in m['evals']:
                    if ev['o']['k'] != 'value' or ev['p'] == 'G':
                        continue
                    T = GRID * float(fr(ev['t']))
                    k5, v5, w5 = call(getattr(est2, cl.GETTERS[ev['p']]), T)
                    o5, val5 = cl.classify(k5, v5, w5)
                    xv = 2 * cl.term_value(ev['o']['t'])
                    n += 1
                    tol = 1e-9 if ev['p'] in ('Cp', 'H') else 2e-6
                    if o5['k'] != 'value' or abs(val5 - xv) > tol * max(1.0, abs(xv)):
                        report('sum', 'estimate(%s).%s(%g)' % (show_map(x2), cl.GETTERS[ev['p']], T),
                               'estimate(%s).%s(%g) = %s %r; twice the sum for %s is %r'
                               % (show_map(x2), cl.GETTERS[ev['p']], T, o5, val5, xs, xv))
                        break
        if with_se and m['q']:
            n += se_check(est, xs, float(fr(m['q'][0])))
    return n


# ------------------------------------------------------------ real libraries
def read_uq_yaml(libname):
    """independent reading of uq data: basis names and matrix as integers x 1e5"""
    d = os.path.join(REPO, 'pgradd', 'data', libname)
    p = os.path.join(d, 'uq.yaml')
    if not os.path.exists(p):
        return None
    with open(p) as f:
        y = yaml.safe_load(f)
    icm = y['UQ']['InvCovMat']
    mat = [[int(round(Fraction(str(v)) * 100000)) for v in row] for row in icm['mat']]
    return {'basis': [str(g) for g in icm['groups']], 'mat': mat}


def group_facts(lib, names, rank):
    out = []
    for g in names:
        sets = lib[g]
        if 'thermochem' not in sets:
            out.append({'name': g, 'has': False})
            continue
        c = sets['thermochem']
        ts = sorted(c.ND_Cp_data) if c.ND_Cp_data else []
        r = c.get_range()
        out.append({'name': g, 'has': True,
                    'cp': [rank[float(ts[0])], rank[float(ts[-1])]] if ts else [],
                    'tref': rank[float(c.T_ref)],
                    'h': c.ND_H_ref is not None, 's': c.ND_S_ref is not None,
                    'rng': [rank[float(r[0])], rank[float(r[1])]] if r is not None else []})
    return out


def temps_of(lib, names, probes):
    t = set(float(p) for p in probes)
    for g in names:
        sets = lib[g]
        if 'thermochem' in sets:
            c = sets['thermochem']
            t.add(float(c.T_ref))
            if c.ND_Cp_data:
                t.update([float(min(c.ND_Cp_data)), float(max(c.ND_Cp_data))])
            if c.get_range() is not None:
                t.update([float(c.get_range()[0]), float(c.get_range()[1])])
    return sorted(t)


def qcount(c):
    f = Fraction(c).limit_denominator(64)
    return [f.numerator, f.denominator]


def formula_counts(smiles):
    """element counts, hydrogens included, from the molecular formula (a code
    path of RDKit independent of AddHs + atom iteration)"""
    m = Chem.MolFromSmiles(smiles)
    f = rdMolDescriptors.CalcMolFormula(m)
    pt = Chem.GetPeriodicTable()
    atoms = []
    for sym, n in re.findall(r'([A-Z][a-z]?)(\d*)', f):
        atoms += [pt.GetAtomicNumber(sym)] * (int(n) if n else 1)
    return atoms
