"""Binding of MergeT.tla (merging correlations whose reference temperatures differ) to
ThermochemIncomplete.update."""
from fractions import Fraction

from .common import call, MachineryError
from . import corrlib as cl

GRID = cl.GRID
fr = cl.fr


def poly_at(P, t):
    return sum(Fraction(c) * t ** k for k, c in enumerate(P))


def build(rec):
    ts = [fr(t) for t in rec['ts']]
    table = {GRID * float(t): float(poly_at(rec['P'], t)) for t in ts}
    h = float(fr(rec['h'][0])) if rec['h'] else None
    s = float(fr(rec['s'][0])) if rec['s'] else None
    rng = (GRID * float(fr(rec['rng'][0])), GRID * float(fr(rec['rng'][1]))) if rec['rng'] else None
    return call(cl.ThermochemIncomplete, h, s, table, GRID * float(fr(rec['tref'])), rng)


def show(rec):
    return ('T_ref=%g H=%s S=%s Cp@%s (P=%s) range=%s'
            % (GRID * float(fr(rec['tref'])), [str(fr(x)) for x in rec['h']] or '-', [str(fr(x)) for x in rec['s']] or '-',
               [GRID * float(fr(t)) for t in rec['ts']], rec['P'],
               [GRID * float(fr(x)) for x in rec['rng']] or '-'))


def snapshot(c):
    return (repr(c.T_ref), repr(c.ND_H_ref), repr(c.ND_S_ref),
            sorted((repr(float(t)), repr(float(v))) for t, v in (c.ND_Cp_data or {}).items()), repr(c.get_range()))


def close(a, b, tol):
    return abs(a - b) <= tol * max(1.0, abs(b))


def check(ctx, report):
    cfg = 'MC_MergeT_t.cfg' if ctx.tier == 'thorough' else 'MC_MergeT_q.cfg'
    outs = ctx.tlc_shards('MC_MergeT', cfg, nshards=16, timeout=3000)
    cases = [c for o in outs for c in o['cases']]
    ctx.log('MC_MergeT: %d base correlations, %d ordered pairs; SameTrefIsIdentity, TranslationOrderFree, AtomicT, '
            'ConflictNeedsBoth hold' % (outs[0]['nbases'], len(cases)))
    n = 0
    stats = {'pairs': len(cases), 'translated': 0, 'conflicts': 0, 'untranslatable': 0}
    for c in cases:
        for mode, ow in (('plain', False), ('ow', True)):
            want = c[mode]
            ka, a, _ = build(c['a'])
            kb, b, _ = build(c['b'])
            if ka == 'error' or kb == 'error':
                raise MachineryError('MergeT base correlation does not construct: %r / %r' % (a, b))
            before = snapshot(a), snapshot(b)
            kind, v, _ = call(a.update, b, ow)
            n += 1
            label = 'update(target: %s ; source: %s ; overwrite=%s)' % (show(c['a']), show(c['b']), ow)
            ctx.count('%s|%s|%s' % (show(c['a']), show(c['b']), ow))
            if snapshot(b) != before[1]:
                report('tref-source-changed:' + label, '%s changed its source' % label)
            if not want['ok']:
                stats['conflicts' if want['cls'] == 'ReadOnlyDataError' else 'untranslatable'] += 1      # (ValueError / IncompleteDataError)
                # which error reports an impossible translation is not part of the statement: any error but
                # the conflict error is accepted there; the conflict must be the read-only-data error
                same = (type(v).__name__ == want['cls']) if want['cls'] == 'ReadOnlyDataError' \
                    else (type(v).__name__ != 'ReadOnlyDataError')
                if kind != 'error' or not same:
                    report('tref-outcome:' + label, '%s -> %s; the specification expects %s'
                           % (label, 'merged' if kind != 'error' else type(v).__name__, want['cls']))
                elif snapshot(a) != before[0]:
                    report('tref-atomic:' + label, '%s was refused (%s) but changed the target' % (label, want['cls']))
                continue
            if kind == 'error':
                report('tref-outcome:' + label, '%s raised %s: %s; the specification expects a merge'
                       % (label, type(v).__name__, str(v)[:80]))
                continue
            rec = want['rec']
            if c['a']['tref'] != c['b']['tref']:
                stats['translated'] += 1
            problems = []
            if not close(float(a.T_ref), GRID * float(fr(rec['tref'])), 1e-12):
                problems.append('T_ref %r (expected %r)' % (a.T_ref, GRID * float(fr(rec['tref']))))
            for name, got, term, tol in (('ND_H_ref', a.ND_H_ref, want['hterm'], 1e-9), ('ND_S_ref', a.ND_S_ref, want['sterm'], 5e-7)):
                if (got is None) != (not term):
                    problems.append('%s %r (expected %s)' % (name, got, 'a value' if term else 'none'))
                elif term and not close(float(got), cl.term_value(term[0]), tol):
                    problems.append('%s %r (expected %r)' % (name, got, cl.term_value(term[0])))
            keys = sorted(float(t) for t in (a.ND_Cp_data or {}))
            if keys != [GRID * float(fr(t)) for t in rec['ts']]:
                problems.append('table temperatures %s' % keys)
            r = a.get_range()
            wr = [GRID * float(fr(x)) for x in rec['rng']]
            if (r is None) != (not wr) or (r is not None and [float(r[0]), float(r[1])] != wr):
                problems.append('range %r (expected %s)' % (r, wr or None))
            if problems:
                report('tref-merge:' + label, '%s: merged correlation has %s' % (label, '; '.join(problems)))
                continue
            # the merged correlation as a function of temperature
            for ev in want['evals']:
                T = GRID * float(fr(ev['t']))
                for p, getter, tol in (('h', 'get_HoRT', 1e-9), ('s', 'get_SoR', 5e-7)):
                    k2, val, warns = call(getattr(a, getter), T)
                    o, f = cl.classify(k2, val, warns)
                    x = ev[p]
                    n += 1
                    if x['k'] == 'error':
                        if o['k'] != 'error':
                            report('tref-eval:%s:%s(%g)' % (label, getter, T), '%s then %s(%g) -> %s; the specification '
                                   'expects an error (%s)' % (label, getter, T, o, x['cls']))
                    elif o['k'] != x['k'] or not close(f, cl.term_value(x['t']), tol):
                        report('tref-eval:%s:%s(%g)' % (label, getter, T), '%s then %s(%g) -> %s %r; the specification '
                               'expects %s %r' % (label, getter, T, o, f, x['k'], cl.term_value(x['t'])))
    ctx.evaluations += n
    ctx.extra['reference_temperature_translation'] = stats
