"""Shared by C12 / C18 / C14: binding of LibLoad.tla to the YAML loader."""
import os
import re
from decimal import Decimal

import yaml

from .common import use_repo, call, codes, MachineryError, REPO
from .mag import mag_value, close

use_repo()
import pgradd.ThermoChem                                        # noqa: E402,F401
from pgradd.GroupAdd.Library import GroupLibrary                # noqa: E402

KINDS = ['temperature', 'molar enthalpy', 'molar entropy', 'molar heat capacity']
_NUM = re.compile(r'^\s*(-?(?:\d+\.?\d*|\.\d+)(?:[eE][-+]?\d+)?)\s*(.*?)\s*$')


class NotRepresentable(Exception):
    pass


def num(x):
    """decimal literal -> [mantissa, exponent] (exact)"""
    d = Decimal(x) if isinstance(x, str) else Decimal(repr(float(x))) if isinstance(x, float) else Decimal(int(x))
    sign, digits, exp = d.as_tuple()
    m = int(''.join(map(str, digits))) * (-1 if sign else 1)
    while m != 0 and m % 10 == 0:
        m //= 10
        exp += 1
    if abs(m) >= 2**31 or abs(exp) > 60:
        raise NotRepresentable(str(x))
    return [m, exp if m else 0]


def fv(v, nd=False):
    """YAML scalar (number or 'number unit') -> field value.  A non-dimensional
    value needs no arithmetic in the spec: when its literal does not fit TLC's
    integers it is passed as an opaque placeholder and compared as a literal."""
    if isinstance(v, bool):
        raise NotRepresentable(repr(v))
    if isinstance(v, (int, float)):
        try:
            return {'n': num(v), 'u': []}
        except NotRepresentable:
            if not nd:
                raise
            return {'n': [1, 0], 'u': [], 'lit': repr(float(v))}
    m = _NUM.match(str(v))
    if not m:
        raise NotRepresentable(repr(v))
    return {'n': num(m.group(1)), 'u': codes(m.group(2))}


def doc_of(t):
    """thermochem mapping as read by yaml.safe_load -> document for LibLoad.tla"""
    doc = {'tref': [], 'h': [], 's': [], 'cp': [], 'rng': []}
    if t.get('T_ref') is not None:
        doc['tref'] = [fv(t['T_ref'])]
    if t.get('ND_H_ref') is not None:
        doc['h'] = [{'nd': True, 'v': fv(t['ND_H_ref'], True)}]
    elif t.get('H_ref') is not None:
        doc['h'] = [{'nd': False, 'v': fv(t['H_ref'])}]
    if t.get('ND_S_ref') is not None:
        doc['s'] = [{'nd': True, 'v': fv(t['ND_S_ref'], True)}]
    elif t.get('S_ref') is not None:
        doc['s'] = [{'nd': False, 'v': fv(t['S_ref'])}]
    if t.get('ND_Cp_data'):
        doc['cp'] = [{'nd': True, 't': fv(r[0]), 'v': fv(r[1], True)} for r in t['ND_Cp_data']]
    elif t.get('Cp_data'):
        doc['cp'] = [{'nd': False, 't': fv(r[0]), 'v': fv(r[1])} for r in t['Cp_data']]
    if t.get('range') is not None:
        doc['rng'] = [fv(t['range'][0]), fv(t['range'][1])]
    return doc


def defs_of(units):
    return {k: codes(str(v)) for k, v in (units or {}).items() if k in KINDS}


def obs_of(kind, c):
    if kind == 'error':
        cls = type(c).__name__
        # the loader wraps construction errors; keep the innermost class name it reports
        return {'ok': False, 'cls': cls, 'pres': {'h': False, 's': False, 'ncp': 0, 'rng': False}}
    return {'ok': True, 'cls': '',
            'pres': {'h': c.ND_H_ref is not None, 's': c.ND_S_ref is not None,
                     'ncp': len(c.ND_Cp_data or {}), 'rng': c.get_range() is not None}}


def plain(x):
    import numpy as np
    return isinstance(x, (int, float, np.floating, np.integer)) and not isinstance(x, bool)


def compare(res, c, label, report, rel=1e-12, doc=None):
    """exact loaded values (TLC) vs the implementation's correlation"""
    n = 0
    lits = {}
    if doc is not None:
        if doc['h'] and 'lit' in doc['h'][0]['v']:
            lits['ND_H_ref'] = float(doc['h'][0]['v']['lit'])
        if doc['s'] and 'lit' in doc['s'][0]['v']:
            lits['ND_S_ref'] = float(doc['s'][0]['v']['lit'])
        lits['cp'] = [float(r['v']['lit']) if 'lit' in r['v'] else None for r in doc['cp']]

    def chk(what, got, mag, lit=None):
        nonlocal n
        n += 1
        if not plain(got):
            report('%s:%s' % (label, what), '%s: %s is not a plain number: %r' % (label, what, got))
            return
        exp = mag_value(mag) if lit is None else lit
        if not close(float(got), exp, rel=rel, abs_=1e-300):
            report('%s:%s' % (label, what), '%s: %s loaded as %r; the file means %r'
                   % (label, what, float(got), exp))
    chk('T_ref', c.T_ref, res['tref'])
    if res['h']:
        chk('ND_H_ref', c.ND_H_ref, res['h'][0], lits.get('ND_H_ref'))
    if res['s']:
        chk('ND_S_ref', c.ND_S_ref, res['s'][0], lits.get('ND_S_ref'))
    data = sorted((float(t), v) for t, v in (c.ND_Cp_data or {}).items())
    cl_ = lits.get('cp') or [None] * len(res['cp'])
    exp = sorted(((mag_value(r['t']), r['v'], l) for r, l in zip(res['cp'], cl_)), key=lambda z: z[0])
    if len(data) == len(exp):
        for (t, v), (te, ve, le) in zip(data, exp):
            n += 1
            if not close(t, te, rel=rel):
                report('%s:Cp T' % label, '%s: Cp temperature loaded as %r; the file means %r' % (label, t, te))
            chk('ND_Cp(%g)' % te, v, ve, le)
    if res['rng']:
        r = c.get_range()
        chk('range lo', r[0], res['rng'][0])
        chk('range hi', r[1], res['rng'][1])
    return n


def validate(ctx, events):
    """run Trace_LibLoad on events (already JSON-able); returns (bad set, res list)"""
    bad, res = set(), []
    for k0 in range(0, len(events), 400):
        chunk = events[k0:k0 + 400]
        # `same` indexes are relative to the chunk: keep groups inside one chunk
        out, r = ctx.tlc_json('Trace_LibLoad', 'Trace_LibLoad.cfg', {'events': chunk})
        if not out.get('done'):
            raise MachineryError('Trace_LibLoad did not finish')
        for pos, why in out['bad']:
            bad.add((k0 + pos - 1, why))
        res += out['res']
    return bad, res


def library_files(name):
    """all yaml files reachable from a library.yaml through `include` (independent walk):
    yields (path, parsed mapping)"""
    root = os.path.join(REPO, 'pgradd', 'data', name, 'library.yaml')
    seen = []

    def walk(p):
        with open(p) as f:
            y = yaml.safe_load(f) or {}
        seen.append((p, y))
        for inc in y.get('include') or []:
            walk(os.path.join(os.path.dirname(p), inc))
    walk(root)
    return seen
