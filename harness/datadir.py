"""Binding of DataDir.tla (locating a library: environment override, cached data directory,
name or path) to GroupLibrary.Load: every run is one fresh process."""
import itertools
import json
import os
import shutil
import subprocess
import sys
from concurrent.futures import ThreadPoolExecutor

from .common import REPO, MachineryError

ENVVAR = 'pgradd_DATA_DIR'
REAL = {'both': 'XieGA2022', 'onlyd1': 'OnlyDeeOne', 'onlypkg': 'PPY'}
HAS = {'pkg': {'both', 'onlypkg'}, 'd1': {'both', 'onlyd1'}, 'd2': {'both'}}
ENVVALUES = ['unset', '', 'd1', 'd2', 'nodir']

RUNNER = r'''
import sys, os, json, io, contextlib
sys.path.insert(0, sys.argv[1])
run = json.loads(sys.argv[2]); dirs = json.loads(sys.argv[3])
out = []
with contextlib.redirect_stdout(io.StringIO()):
    import warnings; warnings.simplefilter('ignore')
    try:
        import pgradd.ThermoChem
        from pgradd.GroupAdd.Library import GroupLibrary
        broken = None
    except Exception as exc:          # the package itself does not import in this environment
        broken = type(exc).__name__
    def served(lib):
        for d in ('d1', 'd2'):
            if any(str(g) == 'Marker%s(Q)' % d.upper() for g in lib):
                return d
        return 'pkg'
    for e in run['events']:
        if e['op'] == 'setenv':
            if e['v'] == 'unset':
                os.environ.pop('pgradd_DATA_DIR', None)
            else:
                os.environ['pgradd_DATA_DIR'] = dirs.get(e['v'], e['v'])
            out.append({'k': 'setenv'})
            continue
        arg = e['real'] if e['op'] == 'name' else os.path.join(dirs[e['d']], e['real'], 'library.yaml')
        if broken:
            out.append({'k': 'error', 'cls': 'import:' + broken})
            continue
        try:
            lib = GroupLibrary.Load(arg)
            out.append({'k': 'from', 'd': served(lib), 'n': e['n'], 'how': e['op']})
        except Exception as exc:
            out.append({'k': 'error', 'cls': type(exc).__name__})
print(json.dumps(out))
'''


def make_dirs(work):
    """d1, d2: relocated data directories with marker libraries; nodir: a path that does not exist"""
    pkg = os.path.join(REPO, 'pgradd', 'data')
    dirs = {'pkg': pkg, 'nodir': os.path.join(work, 'no_such_directory')}
    for d in ('d1', 'd2'):
        root = os.path.join(work, d)
        dirs[d] = root
        for n in sorted(HAS[d]):
            ld = os.path.join(root, REAL[n])
            os.makedirs(ld)
            shutil.copy(os.path.join(pkg, 'XieGA2022', 'scheme.yaml'), os.path.join(ld, 'scheme.yaml'))
            with open(os.path.join(ld, 'library.yaml'), 'w') as f:
                f.write('groups:\n  "Marker%s(Q)":\n    thermochem:\n      T_ref: 298.15 K\n      ND_H_ref: 1.0\n' % d.upper())
    return dirs


def histories(rng, thorough):
    names = ['both', 'onlyd1', 'onlypkg']
    runs = []
    for s in ENVVALUES:                       # nothing touched: the statement applies
        runs.append({'start': s, 'events': [{'op': 'name', 'n': n} for n in names] +
                     [{'op': 'path', 'd': 'd1', 'n': 'both'}, {'op': 'name', 'n': 'both'},
                      {'op': 'path', 'd': 'pkg', 'n': 'onlypkg'}]})
        runs.append({'start': s, 'events': [{'op': 'path', 'd': 'd2', 'n': 'both'}, {'op': 'name', 'n': 'both'}]})
    for s, v in itertools.product(ENVVALUES, ENVVALUES):     # the program changes the variable before / after the first use
        runs.append({'start': s, 'events': [{'op': 'setenv', 'v': v}, {'op': 'name', 'n': 'both'}, {'op': 'name', 'n': 'onlyd1'}]})
        if thorough or (ENVVALUES.index(s) + ENVVALUES.index(v)) % 2 == 0:
            runs.append({'start': s, 'events': [{'op': 'name', 'n': 'both'}, {'op': 'setenv', 'v': v},
                                                {'op': 'name', 'n': 'both'}, {'op': 'name', 'n': 'onlypkg'}]})
    for _ in range(200 if thorough else 20):
        evs = []
        for _ in range(rng.randint(2, 7)):
            r = rng.random()
            if r < .3:
                evs.append({'op': 'setenv', 'v': rng.choice(ENVVALUES)})
            elif r < .8:
                evs.append({'op': 'name', 'n': rng.choice(names)})
            else:
                evs.append({'op': 'path', 'd': rng.choice(['pkg', 'd1', 'd2']), 'n': rng.choice(names)})
        runs.append({'start': rng.choice(ENVVALUES), 'events': evs})
    return runs


def execute(run, dirs):
    env = dict(os.environ)
    env.pop(ENVVAR, None)
    if run['start'] != 'unset':
        env[ENVVAR] = dirs.get(run['start'], run['start'])
    r = {'start': run['start'], 'events': [dict(e, real=REAL[e['n']]) if 'n' in e else e for e in run['events']]}
    p = subprocess.run([sys.executable, '-W', 'ignore', '-c', RUNNER, REPO, json.dumps(r), json.dumps(dirs)],
                       env=env, cwd=dirs['cwd'], stdout=subprocess.PIPE, stderr=subprocess.PIPE,
                       universal_newlines=True, timeout=600)
    lines = p.stdout.strip().splitlines()
    if p.returncode != 0 or not lines:
        raise MachineryError('data-directory run failed: %s' % (p.stderr.strip().splitlines() or ['?'])[-1])
    return json.loads(lines[-1])


def show(run, upto=None):
    out = ['%s=%r at start' % (ENVVAR, run['start'])]
    for e in run['events'][:upto]:
        out.append('set %s' % e['v'] if e['op'] == 'setenv' else
                   'Load(%s)' % REAL[e['n']] if e['op'] == 'name' else 'Load(<%s>/%s/library.yaml)' % (e['d'], REAL[e['n']]))
    return ' ; '.join(out)


def check(ctx, rng, report):
    thorough = ctx.tier == 'thorough'
    r0 = ctx.tlc('DataDir', 'MC_DataDir.cfg', workers=4)
    tell = {}
    for variant, want in (('recheck', 'CacheStable'), ('ignoreenv', 'Refines'), ('fallback', 'Refines')):
        rv = ctx.tlc('DataDir', 'MC_DataDir_%s.cfg' % variant, workers=1, expect_violation=True, count=False)
        tell[variant] = rv.violated
        if rv.violated != want:
            raise MachineryError('DataDir variant %s should violate %s (got %r)' % (variant, want, rv.violated))
    ctx.log('DataDir: %d states, %d transitions; Refines, OverrideHonoured, NoFallback, EmptyIsUnset, CacheStable, '
            'PathIsPure hold; the three other designs are told apart' % (r0.distinct, r0.generated))
    work = os.path.join(ctx.scratch, 'datadir')
    os.makedirs(os.path.join(work, 'cwd'))
    dirs = make_dirs(work)
    dirs['cwd'] = os.path.join(work, 'cwd')
    runs = histories(rng, thorough)
    with ThreadPoolExecutor(max_workers=14) as ex:
        observed = list(ex.map(lambda r: execute(r, dirs), runs))
    data = {'runs': [{'start': r['start'], 'events': [dict(e, obs=o) for e, o in zip(r['events'], obs)]}
                     for r, obs in zip(runs, observed)]}
    out, _ = ctx.tlc_json('Trace_DataDir', 'Trace_DataDir.cfg', data)
    if not out.get('done'):
        raise MachineryError('Trace_DataDir did not finish')
    ctx.traces += len(runs)
    nfaith = 0
    for v in out['res']:
        run = runs[v['run'] - 1]
        ev = run['events'][v['pos'] - 1]
        if ev['op'] == 'setenv':
            continue
        ctx.count('locate:%s' % show(run, v['pos']))
        obs = observed[v['run'] - 1][v['pos'] - 1]
        if not v['allowed']:
            report('locate:%s' % show(run, v['pos']),
                   'locating a library: %s -> %s; the statement (a directory in the variable when names are first resolved: '
                   'served from there; unset or empty: from the package) allows only %s' % (show(run, v['pos']), obs, v['expect']))
        elif not v['faithful']:
            nfaith += 1
            ctx.log('note (no violation): %s -> %s, the cached-directory machine of DataDir.tla gives %s'
                    % (show(run, v['pos']), obs, v['expect']))
    ctx.extra['datadir'] = {'states': r0.distinct, 'runs': len(runs), 'variants_told_apart': tell,
                            'observations_differing_from_the_cache_machine_but_allowed': nfaith}
