"""RDKit molecule <-> the molecule record of RingMatch.tla (1-based indices)."""
from rdkit import Chem

STEREO = {Chem.rdchem.BondStereo.STEREOZ: 'Z', Chem.rdchem.BondStereo.STEREOE: 'E',
          Chem.rdchem.BondStereo.STEREOCIS: 'Z', Chem.rdchem.BondStereo.STEREOTRANS: 'E'}


def export(mol):
    """the graph the matcher sees: `mol` must already carry explicit hydrogens"""
    ri = mol.GetRingInfo()
    atoms = [{'z': a.GetAtomicNum(), 'q': a.GetFormalCharge(), 'rad': a.GetNumRadicalElectrons(),
              'arom': bool(a.GetIsAromatic()), 'ring': bool(a.IsInRing())} for a in mol.GetAtoms()]
    bonds = [{'a': b.GetBeginAtomIdx() + 1, 'b': b.GetEndAtomIdx() + 1, 'kind': str(b.GetBondType()),
              'ring': bool(b.IsInRing())} for b in mol.GetBonds()]
    rings = [[i + 1 for i in r] for r in ri.AtomRings()]
    stereo = []
    for b in mol.GetBonds():
        st = STEREO.get(b.GetStereo())
        if st:
            sa = list(b.GetStereoAtoms())
            if len(sa) == 2:
                stereo.append({'a': b.GetBeginAtomIdx() + 1, 'b': b.GetEndAtomIdx() + 1, 'st': st,
                               'sa': [sa[0] + 1, sa[1] + 1]})
    return {'atoms': atoms, 'bonds': bonds, 'rings': rings, 'stereo': stereo}


def with_hs(smiles, sanitize=True):
    m = Chem.MolFromSmiles(smiles, sanitize=sanitize)
    if m is None:
        return None
    return Chem.AddHs(m)
