"""C16 - a RING reaction rule applies exactly its declared edit per match.

Pass A: 16 TLC processes parse and read every rule text with the TLA+ reader
        (acceptance = electron balance of every labelled atom) and run every
        accepted unimolecular rule on every molecule of its pairs with
        Reaction.tla: one edited graph per embedding of the reactant fragment
        (RingMatch), products = connected components.  Invariants
        BalanceMeansConservation and NothingElseChanges hold on everything
        computed.
Run   : Read(text) must accept exactly the balanced rules (the generator keeps
        its own independent balance), and RunReactants(mol) must return one
        product set per embedding, each equal - atom by atom (identity carried by
        a property), bond by bond, component by component - to the edited graph
        the specification computes for that embedding.
"""
import random

from rdkit import Chem

from .. import ringgen as rg
from .. import molio
from ..common import use_repo, call, codes, MachineryError
from .c09 import _vin

use_repo()
from pgradd.RINGParser import Read                     # noqa: E402
from pgradd.Error import RINGError                     # noqa: E402

EXPLICIT = [
    ("rule CH{ reactant r1{ C labeled c1 H labeled h1 single bond to c1 } increase number of radical (c1) "
     "increase number of radical (h1) break bond(c1,h1) }", True),
    ("rule CC{ reactant r1{ C labeled c1 C labeled c2 single bond to c1 } increase number of radical (c1) "
     "increase number of radical (c2) break single bond(c1,c2) }", True),
    ("rule DB{ reactant r1{ C labeled c1 C labeled c2 double bond to c1 } increase number of radical (c1) "
     "increase number of radical (c2) decrease bond order (c1,c2) }", True),
    ("rule UP{ reactant r1{ C. labeled c1 C. labeled c2 single bond to c1 } decrease number of radical (c1) "
     "decrease number of radical (c2) increase bond order (c1,c2) }", True),
    ("rule MOD{ reactant r1{ C labeled c1 C labeled c2 double bond to c1 } modify bond (c1, c2, single) "
     "increase number of radical (c1) increase number of radical (c2) }", True),
    ("rule MOD2{ reactant r1{ C labeled c1 C labeled c2 triple bond to c1 } modify bond (c1, c2, double) "
     "increase number of radical (c1) increase number of radical (c2) }", True),
    ("rule HSHIFT{ reactant r1{ C. labeled c1 C labeled c2 single bond to c1 H labeled h1 single bond to c2 } "
     "break bond(c2,h1) form bond(c1,h1) decrease number of radical (c1) increase number of radical (c2) }", True),
    ("rule OH{ reactant r1{ O labeled o1 H labeled h1 single bond to o1 } increase number of radical (o1) "
     "increase number of radical (h1) break bond(o1,h1) }", True),
    ("rule ION{ reactant r1{ O labeled o1 H labeled h1 single bond to o1 } decrease formal charge (o1) "
     "increase formal charge (h1) break bond(o1,h1) }", True),
    ("rule RING{ reactant r1{ C. labeled c1 C labeled c2 single bond to c1 C labeled c3 single bond to c2 "
     "C. labeled c4 single bond to c3 } form bond(c1,c4) decrease number of radical (c1) decrease number of radical (c4) }", True),
    # bonds whose order the pattern leaves open: the order to change is the matched bond's own
    ("rule UPANY{ reactant r1{ C. labeled c1 C. labeled c2 any bond to c1 } decrease number of radical (c1) "
     "decrease number of radical (c2) increase bond order (c1,c2) }", True),
    ("rule UPNR{ reactant r1{ C. labeled c1 C. labeled c2 nonring bond to c1 } decrease number of radical (c1) "
     "decrease number of radical (c2) increase bond order (c1,c2) }", True),
    ("rule DOWNSTRONG{ reactant r1{ C labeled c1 C labeled c2 strong bond to c1 } increase number of radical (c1) "
     "increase number of radical (c2) decrease bond order (c1,c2) }", True),
    ("rule DOWNANY{ reactant r1{ C labeled c1 O labeled o1 any bond to c1 } increase number of radical (c1) "
     "increase number of radical (o1) decrease bond order (c1,o1) }", True),
    # an untyped break is a single-bond break: it does not describe a double or triple bond of the pattern
    ("rule UB2{ reactant r1{ C labeled c1 C labeled c2 double bond to c1 } increase number of radical (c1) "
     "increase number of radical (c2) break bond(c1,c2) }", False),
    ("rule UB3{ reactant r1{ C labeled c1 C labeled c2 triple bond to c1 } increase number of radical (c1) "
     "increase number of radical (c2) break bond(c1,c2) }", False),
    ("rule UBO{ reactant r1{ C labeled c1 O labeled o1 double bond to c1 } increase number of radical (c1) "
     "increase number of radical (o1) break bond(c1,o1) }", False),
    # setting the number of radical electrons: the balance counts the change from what the pattern declares,
    # on top of the other edits of the same atom
    ("rule SET1{ reactant r1{ C labeled c1 H labeled h1 single bond to c1 } break bond(c1,h1) "
     "increase number of radical (h1) modify number of radical (c1, 1) }", True),
    ("rule SET0{ reactant r1{ C labeled c1 H labeled h1 single bond to c1 } break bond(c1,h1) "
     "increase number of radical (h1) modify number of radical (c1, 0) }", False),
    ("rule SET2{ reactant r1{ C. labeled c1 C. labeled c2 single bond to c1 } modify number of radical (c1, 0) "
     "modify number of radical (c2, 0) increase bond order (c1,c2) }", True),
    ("rule SET3{ reactant r1{ C. labeled c1 C labeled c2 single bond to c1 H labeled h1 single bond to c2 } "
     "modify number of radical (c1, 0) form bond(c1,h1) break bond(c2,h1) modify number of radical (c2, 1) }", True),
    # edits are applied in the order they are written
    ("rule ORD1{ reactant r1{ C. labeled c1 } modify number of radical (c1, 0) increase number of radical (c1) }", True),
    ("rule ORD2{ reactant r1{ C. labeled c1 } increase number of radical (c1) modify number of radical (c1, 1) }", False),
    ("rule ORD3{ reactant r1{ C. labeled c1 C. labeled c2 single bond to c1 } increase bond order (c1,c2) "
     "modify number of radical (c1, 0) decrease number of radical (c2) }", True),
    ("rule BAD1{ reactant r1{ C labeled c1 H labeled h1 single bond to c1 } break bond(c1,h1) }", False),
    ("rule BAD2{ reactant r1{ C labeled c1 H labeled h1 single bond to c1 } increase number of radical (c1) break bond(c1,h1) }", False),
    ("rule BAD3{ reactant r1{ C labeled c1 C labeled c2 double bond to c1 } decrease bond order (c1,c2) }", False),
    ("rule BAD4{ reactant r1{ C labeled c1 } increase number of radical (c1) }", False),
    ("rule BAD5{ reactant r1{ C labeled c1 C labeled c2 single bond to c1 } form double bond(c1,c2) break bond(c1,c2) }", False),
]
MOLS = ['C', 'CC', 'CCC', 'C=C', 'C#C', 'CC=C', 'CO', 'CCO', 'C=O', 'CC(C)C', 'C1CC1', 'C1CCC1', 'c1ccccc1',
        '[CH3]', 'C[CH2]', '[CH2][CH2]', '[CH2]C[CH2]', '[CH2]CC[CH2]', '[CH2]CC', 'O', 'OO', 'C[O]', 'C=CC=C',
        'CC#C', 'CC(=O)O', 'C([Pt])C', 'CN', '[CH2]O', 'C1=CC1', 'CS',
        '[CH]=[CH]', '[CH2][CH][CH]=[CH]', 'C=CC#C', 'O=CCO', '[CH2][CH]C1[CH][CH]1',
        # species already in the list, atoms in another order (the rule objects are reused)
        'OCC', 'C(C)O', 'C(=C)C', 'OC', 'O=C(O)C', '[CH2]C']


def graph_of(products):
    atoms, bonds, comps = {}, set(), []
    for p in products:
        comp = set()
        for a in p.GetAtoms():
            v = a.GetIntProp('vid')
            atoms[v] = (a.GetAtomicNum(), a.GetFormalCharge(), a.GetNumRadicalElectrons())
            comp.add(v)
        for b in p.GetBonds():
            x, y = b.GetBeginAtom().GetIntProp('vid'), b.GetEndAtom().GetIntProp('vid')
            bonds.add((min(x, y), max(x, y), str(b.GetBondType())))
        comps.append(frozenset(comp))
    return atoms, bonds, set(comps)


# ---- several reactants: beyond the statement of C16 (which speaks of one molecule); compared, never alarmed
MULTI = [
    ("rule ADD{ reactant r1{ C. labeled c1 } reactant r2{ C. labeled c2 } form bond(c1,c2) "
     "decrease number of radical (c1) decrease number of radical (c2) }",
     [['[CH3]', '[CH3]'], ['[CH3]', 'C[CH2]'], ['[CH2]C[CH2]', '[CH3]'], ['C', '[CH3]']]),
    ("rule HABS{ reactant r1{ C. labeled c1 } reactant r2{ C labeled c2 H labeled h1 single bond to c2 } "
     "break bond(c2,h1) form bond(c1,h1) decrease number of radical (c1) increase number of radical (c2) }",
     [['[CH3]', 'CC'], ['C[CH2]', 'C'], ['[CH3]', 'O']]),
    ("rule OADD{ reactant r1{ O. labeled o1 } reactant r2{ C labeled c1 C labeled c2 double bond to c1 } "
     "form bond(o1,c1) decrease bond order (c1,c2) decrease number of radical (o1) increase number of radical (c2) }",
     [['C[O]', 'C=C'], ['[OH]', 'CC=C']]),
    ("rule TER{ reactant r1{ C. labeled c1 } reactant r2{ O labeled o1 } reactant r3{ C. labeled c3 } "
     "form bond(c1,c3) decrease number of radical (c1) decrease number of radical (c3) }",
     [['[CH3]', 'O', '[CH3]'], ['C[CH2]', 'CO', '[CH3]']]),
]


def _multi(ctx):
    mols, idx = [], {}
    cases = []
    for text, lists in MULTI:
        for smis in lists:
            ks = []
            for s in smis:
                if s not in idx:
                    mols.append(molio.export(Chem.AddHs(Chem.MolFromSmiles(s))))
                    idx[s] = len(mols)
                ks.append(idx[s])
            cases.append({'rule': codes(text), 'mols': ks, '_text': text, '_smis': smis})
    data = {'mols': mols, 'cases': [{'rule': c['rule'], 'mols': c['mols']} for c in cases]}
    out, r = ctx.tlc_json('MC_ReactionN', 'MC_ReactionN.cfg', data, count=False)

    def canon(rs):
        bag = []
        for x in rs:
            if 'unspecified' in x:
                return None
            bag.append((tuple((a['z'], a['q'], a['rad']) for a in x['atoms']),
                        frozenset((min(a, b), max(a, b), k) for a, b, k in x['bonds']),
                        frozenset(frozenset(c) for c in x['comps'])))
        return sorted(bag, key=repr)
    notes = {'agree': 0, 'differ_beyond_statement': [], 'non_cumulative_shift_with_three_reactants': []}
    for c, spec, dev in zip(cases, out['res'], out['dev']):
        label = '%s on %s' % (c['_text'].split('{')[0].strip(), ' + '.join(c['_smis']))
        kind, q, _ = call(Read, c['_text'])
        if kind == 'error' or not spec['ok']:
            if (kind == 'error') == spec['ok']:
                notes['differ_beyond_statement'].append(label + ': read differently')
            continue
        ms, off = [], 0
        for s in c['_smis']:
            m = Chem.AddHs(Chem.MolFromSmiles(s))
            for a in m.GetAtoms():
                a.SetIntProp('vid', off + a.GetIdx() + 1)
            off += m.GetNumAtoms()
            ms.append(m)
        k2, prods, _ = call(q.RunReactants, tuple(ms))
        ctx.evaluations += 1
        want, wdev = canon(spec['rs']), canon(dev['rs'])
        if k2 == 'error':
            got = 'error:' + type(prods).__name__
        else:
            got = []
            for ps in prods:
                atoms, bonds, comps = graph_of(ps)
                got.append((tuple(atoms[k] for k in sorted(atoms)), frozenset(bonds), frozenset(comps)))
            got = sorted(got, key=repr)
        if want is None:
            continue
        if got == want:
            notes['agree'] += 1
        else:
            # a rule with several reactants is applied to its reactant molecules side by side: the product
            # set is those molecules with precisely the rule's edits on the matched atoms (RunRuleN)
            shift = len(c['_smis']) >= 3 and (got == wdev or (wdev is None and isinstance(got, str)))
            # (wdev None: with the (k-1)-only shift the edit hits atoms it has no meaning on, the code raises)
            if shift:
                notes['non_cumulative_shift_with_three_reactants'].append(label)
            else:
                notes['differ_beyond_statement'].append(label)
            ctx.violation('several-reactants:' + ('index-shift:' if shift else '') + label,
                          '%s: RunReactants gives %s; Reaction.tla (RunRuleN: one embedding per reactant, the edits '
                          'applied to the matched atoms of the molecules side by side) gives %d product set(s)%s'
                          % (label, got if isinstance(got, str) else '%d product set(s) that differ' % len(got),
                             len(want), '; it is what the non-cumulative index shift produces' if shift else ''),
                          {'kind': 'multi', 'label': label})
    ctx.extra['several_reactants'] = notes
    ctx.log('several reactants: %d cases agree with Reaction.tla, %d follow the '
            'non-cumulative index shift (three reactants), %d differ otherwise'
            % (notes['agree'], len(notes['non_cumulative_shift_with_three_reactants']), len(notes['differ_beyond_statement'])))


def run(ctx):
    thorough = ctx.tier == 'thorough'
    rng_ = random.Random(ctx.seed)
    rules = list(EXPLICIT)
    for _ in range(700 if thorough else 120):
        r = rg.rule(rng_, balanced=rng_.random() < .65)
        t, _ = rg.rule_text(rng_, r, wild=rng_.random() < .5)
        rules.append((t, r['balanced']))
    mols = []
    for s in MOLS:
        m = Chem.AddHs(Chem.MolFromSmiles(s))
        for a in m.GetAtoms():
            a.SetIntProp('vid', a.GetIdx() + 1)
        mols.append((s, m, molio.export(m)))
    pairs = []
    for ri in range(1, len(rules) + 1):
        for mi in range(1, len(mols) + 1):
            if ri <= len(EXPLICIT) or rng_.random() < (.5 if thorough else .3):
                pairs.append([ri, mi])
    ctx.log('%d rule texts, %d molecules, %d pairs' % (len(rules), len(mols), len(pairs)))
    data = {'rules': [codes(t) for t, _ in rules], 'mols': [x[2] for x in mols], 'pairs': pairs}
    outs = ctx.tlc_shards('MC_Reaction', 'MC_Reaction.cfg', nshards=16, env={'VIN': _vin(ctx, data)}, timeout=6000)
    res = {}
    for o in outs:
        for j, r in o['res'].items():
            res[int(j)] = r
    if len(res) != len(pairs):
        raise MachineryError('shards returned %d of %d pairs' % (len(res), len(pairs)))
    read = {}
    stats = {'accepted': 0, 'rejected': 0, 'product_sets': 0, 'unspecified': 0}
    for j, (ri, mi) in enumerate(pairs, 1):
        text, balanced = rules[ri - 1]
        smi, m, _ = mols[mi - 1]
        spec = res[j]
        if ri not in read:
            read[ri] = call(Read, text)
            kind, q, _ = read[ri]
            ctx.count(text)
            accepted = kind == 'value'
            stats['accepted' if accepted else 'rejected'] += 1
            # acceptance: implementation = specification = the generator's own balance
            spec_acc = spec['ok'] or spec.get('why') == 'not unimolecular'
            if accepted != spec_acc or (accepted != balanced and (spec_acc == balanced)):
                ctx.violation('accept:%r' % text, 'Read(%r) %s; the rule is %s (generator) and the specification %s it (%s)'
                              % (text, 'accepted' if accepted else 'raised ' + type(q).__name__,
                                 'balanced' if balanced else 'unbalanced', 'accepts' if spec_acc else 'rejects',
                                 spec.get('why', '')), {'kind': 'rule', 'text': text})
            elif not accepted and not isinstance(q, RINGError) and spec.get('why') == 'RINGReaderError':
                # (the statement says "rejected when read"; that the rejection is one of the RING errors is C09's clause)
                ctx.violation('reject-class:%r' % text, 'Read(%r) raised %s, not a RING error'
                              % (text, type(q).__name__), {'kind': 'rule', 'text': text})
        kind, q, _ = read[ri]
        if kind == 'error' or not spec['ok']:
            continue
        name = list(q.reactantquery)[0]
        k1, matches, _ = call(q.reactantquery[name].GetQueryMatches, m)
        k2, prods, _ = call(q.RunReactants, Chem.Mol(m))
        ctx.evaluations += 1
        by_m = {tuple(r['m']): r for r in spec['rs']}
        anyunspec = any('unspecified' in r for r in spec['rs'])
        if k2 == 'error':
            if anyunspec:
                stats['unspecified'] += 1
                continue
            ctx.violation('run-error:%r|%s' % (text, smi), 'RunReactants(%r on %s) raised %s: %s'
                          % (text, smi, type(prods).__name__, str(prods)[:80]), {'kind': 'pair', 'text': text, 'smiles': smi})
            continue
        ms = [tuple(int(x) + 1 for x in t) for t in matches]
        if set(ms) != set(by_m) or len(prods) != len(ms):
            ctx.violation('product-sets:%r|%s' % (text, smi),
                          'rule %r on %s: %d product sets for %d embeddings; the reactant pattern denotes %d embeddings'
                          % (text, smi, len(prods), len(ms), len(by_m)), {'kind': 'pair', 'text': text, 'smiles': smi})
            continue
        for mt, ps in zip(ms, prods):
            r = by_m[mt]
            if 'unspecified' in r:
                stats['unspecified'] += 1
                continue
            stats['product_sets'] += 1
            atoms, bonds, comps = graph_of(ps)
            want_atoms = {k + 1: (a['z'], a['q'], a['rad']) for k, a in enumerate(r['atoms'])}
            want_bonds = set((min(a, b), max(a, b), k) for a, b, k in r['bonds'])
            want_comps = set(frozenset(c) for c in r['comps'])
            if atoms != want_atoms or bonds != want_bonds or comps != want_comps:
                da = {k: (atoms.get(k), want_atoms.get(k)) for k in set(atoms) | set(want_atoms) if atoms.get(k) != want_atoms.get(k)}
                ctx.violation('products:%r|%s' % (text, smi),
                              'rule %r on %s, embedding %s: products differ from the declared edit: atoms (got, want) %s; '
                              'bonds only in result %s, only in spec %s; components equal: %s'
                              % (text, smi, mt, dict(list(da.items())[:4]), sorted(bonds - want_bonds)[:4],
                                 sorted(want_bonds - bonds)[:4], comps == want_comps),
                              {'kind': 'pair', 'text': text, 'smiles': smi})
                break
    ctx.extra.update(stats)
    _multi(ctx)
    ctx.extra['rules'] = len(rules)
    ctx.extra['pairs'] = len(pairs)
    ctx.sample({'rule': rules[len(EXPLICIT)][0][:300], 'balanced': rules[len(EXPLICIT)][1]})
    ctx.sample({'rule': EXPLICIT[6][0], 'molecule': 'C[CH2]'})
    ctx.assumptions += [
        'unimolecular rules; an edit without meaning on the matched atoms (bond already there / not there, order '
        'change of an aromatic bond, negative radical count) is unspecified and not compared',
        'atom identity through an integer atom property set on the reactant before running the rule']


def replay(ctx, rep):
    run(ctx)
