"""C12 - loading a library does not depend on the units its data use.

The meaning of a library document is LibLoad.tla (on top of Units.tla and
Mag.tla: exact magnitudes).  The harness writes synthetic libraries in which
the same physical data are presented with file-level default units, explicit
unit strings on individual values (several units and prefixes), mixtures, and
non-dimensional keys; loads them with GroupLibrary.Load; and Trace_LibLoad
decides, per document, the outcome class (loaded / InputDataError when no unit
is available), which parts exist, the exact loaded values, and that two
presentations of one datum load to *structurally equal* exact magnitudes.
The harness compares the floats (1e-12) and the getters across presentations.
"""
import os
import random
import tempfile
from decimal import Decimal

import yaml

from .. import liblib as ll
from .. import corrlib as cl
from ..common import call, codes, MachineryError

D = Decimal
# unit choices: (unit string, factor: literal = physical_in_base / factor)
H_UNITS = [('kcal/mol', D(1)), ('kJ/mol', D(1) / D('4.184')), ('J/mol', D(1) / D(4184)),
           ('cal/mol', D(1) / D(1000)), ('kJ/kmol', D(1) / D(4184)), ('mJ/umol', D(1) / D('4.184')),
           ('daJ/mol', D(1) / D('418.4'))]
S_UNITS = [('cal/(mol*K)', D(1)), ('J/(mol*K)', D(1) / D('4.184')), ('kJ/(mol K)', D(1000) / D('4.184')),
           ('cal/mol/K', D(1)), ('mcal/(mmol K)', D(1)), ('J/mol/K', D(1) / D('4.184'))]
T_UNITS = [('K', D(1)), ('kK', D(1000)), ('mK', D(1) / D(1000)), ('hK', D(100)), ('daK', D(10))]
H_VALUES = [D('-10.2'), D(0), D('0.5'), D('37.25'), D('-1.9')]
S_VALUES = [D('30.41'), D(0), D('-12.07'), D('9.42')]
CP_VALUES = [D('6.19'), D(0), D('9.4'), D('-0.6'), D('13.02')]
T_REFS = [D('298.15'), D(298), D(300)]


def lit(x):
    """exact decimal literal for YAML (no exponent form)"""
    s = format(x.normalize(), 'f')
    return s if s not in ('-0',) else '0'


def datum(rng_):
    n = rng_.choice([0, 1, 2, 3, 5])
    ts = sorted(rng_.sample([D(300), D(400), D(500), D(600), D(800), D(1000), D(1500)], n))
    return {'tref': rng_.choice(T_REFS),
            'h': rng_.choice(H_VALUES + [None]), 's': rng_.choice(S_VALUES + [None]),
            'cp': [(t, rng_.choice(CP_VALUES)) for t in ts],
            'rng': (D(298), D(1500)) if (ts or rng_.random() < .3) else None}


# per-molecule units: not an exact decimal multiple of the base units, so the literal is the rounded
# conversion and the specification evaluates that literal (no "same datum" claim for this presentation)
EV = D('23.060548')       # kcal/mol per eV/molecule, roughly
PM_UNITS = {'molar enthalpy': [('eV/molecule', EV), ('meV/molecule', EV / 1000)],
            'molar entropy': [('eV/molecule/K', EV * 1000), ('meV/(molecule K)', EV)],
            'molar heat capacity': [('eV/(molecule*K)', EV * 1000), ('meV/molecule/K', EV)]}


def present(d, mode, rng_, defaults):
    """-> yaml mapping (python) for one group's thermochem in presentation `mode`"""
    def q(val, units, kind):
        if mode == 'permolecule' and kind in PM_UNITS:
            u, f = rng_.choice(PM_UNITS[kind])
            return '%s %s' % (lit((val / f).quantize(D('0.000001'))), u)
        if mode == 'default':
            u, f = [x for x in units if x[0] == defaults[kind]][0]
            v = val / f
            return float(lit(v)) if '.' in lit(v) else int(lit(v))
        u, f = rng_.choice(units) if mode in ('explicit', 'mixed') else units[0]
        if mode == 'mixed' and rng_.random() < .5:
            u, f = [x for x in units if x[0] == defaults[kind]][0]
            v = val / f
            return float(lit(v)) if '.' in lit(v) else int(lit(v))
        return '%s %s' % (lit(val / f), u)
    t = {'T_ref': q(d['tref'], T_UNITS, 'temperature')}
    if d['h'] is not None:
        t['H_ref'] = q(d['h'], H_UNITS, 'molar enthalpy')
    if d['s'] is not None:
        t['S_ref'] = q(d['s'], S_UNITS, 'molar entropy')
    if d['cp']:
        t['Cp_data'] = [[q(T, T_UNITS, 'temperature'), q(v, S_UNITS, 'molar heat capacity')]
                        for T, v in d['cp']]
    if d['rng']:
        t['range'] = [q(d['rng'][0], T_UNITS, 'temperature'), q(d['rng'][1], T_UNITS, 'temperature')]
    return t


R = 8.314472
CAL = 4.184


def present_nd(d):
    t = {'T_ref': '%s K' % lit(d['tref'])}
    if d['h'] is not None:
        t['ND_H_ref'] = float(d['h']) * 1000 * CAL / (R * float(d['tref']))
    if d['s'] is not None:
        t['ND_S_ref'] = float(d['s']) * CAL / R
    if d['cp']:
        t['ND_Cp_data'] = [['%s K' % lit(T), float(v) * CAL / R] for T, v in d['cp']]
    if d['rng']:
        t['range'] = ['%s K' % lit(d['rng'][0]), '%s K' % lit(d['rng'][1])]
    return t


DEFAULT_SETS = [
    {'temperature': 'K', 'molar enthalpy': 'kcal/mol', 'molar entropy': 'cal/(mol*K)', 'molar heat capacity': 'cal/(mol*K)'},
    {'temperature': 'K', 'molar enthalpy': 'kJ/mol', 'molar entropy': 'J/(mol*K)', 'molar heat capacity': 'J/(mol*K)'},
    {'temperature': 'K', 'molar enthalpy': 'J/mol', 'molar entropy': 'J/mol/K', 'molar heat capacity': 'cal/mol/K'},
    {'temperature': 'kK', 'molar enthalpy': 'cal/mol', 'molar entropy': 'kJ/(mol K)', 'molar heat capacity': 'J/(mol*K)'},
]


def write_lib(d, groups, units):
    with open(os.path.join(d, 'scheme.yaml'), 'w') as f:
        f.write('patterns: []\n')
    y = {'groups': {g: {'thermochem': t} for g, t in groups.items()}}
    if units:
        y['units'] = units
    p = os.path.join(d, 'library.yaml')
    with open(p, 'w') as f:
        yaml.safe_dump(y, f, default_flow_style=None, sort_keys=False)
    return p


def run(ctx):
    thorough = ctx.tier == 'thorough'
    # what a unit name means does not depend on which names were looked up before it in the process
    from pgradd.Units import eval_qty
    for u in ('aJ', 'aK', 'acal', 'amol', 'mJ', 'kK'):
        call(eval_qty, u)
    r0 = ctx.tlc('MC_LibLoad', 'MC_LibLoad.cfg', workers=8)
    ctx.log('MC_LibLoad: %d states, %d transitions' % (r0.distinct, r0.generated))
    ctx.extra['mc'] = {'distinct_states': r0.distinct, 'transitions': r0.generated}
    rng_ = random.Random(ctx.seed)
    ndata = 160 if thorough else 40
    data = [datum(rng_) for _ in range(ndata)]
    data[0] = {'tref': D('298.15'), 'h': D(0), 's': D(0), 'cp': [(D(300), D(0)), (D(500), D('6.19'))],
               'rng': (D(298), D(1500))}     # zero is a value like any other
    work = tempfile.mkdtemp(prefix='c12_', dir=ctx.scratch)
    events, meta = [], []
    nfile = 0
    loaded = {}          # (datum index, presentation) -> correlation
    for k0 in range(0, ndata, 8):
        batch = list(range(k0, min(k0 + 8, ndata)))
        base = len(events)
        first = {}
        for mode in ['default0', 'default1', 'default2', 'default3', 'explicit', 'explicit2', 'mixed', 'nd', 'permolecule']:
            if mode.startswith('default'):
                defs = DEFAULT_SETS[int(mode[-1])]
                units = dict(defs)
                groups = {'g%d' % i: present(data[i], 'default', rng_, defs) for i in batch}
            elif mode.startswith('explicit'):
                defs, units = {}, None
                groups = {'g%d' % i: present(data[i], 'explicit', rng_, {}) for i in batch}
            elif mode == 'permolecule':
                defs, units = {}, None
                groups = {'g%d' % i: present(data[i], 'permolecule', rng_, {}) for i in batch}
            elif mode == 'mixed':
                defs = DEFAULT_SETS[rng_.randrange(4)]
                units = dict(defs)
                groups = {'g%d' % i: present(data[i], 'mixed', rng_, defs) for i in batch}
            else:
                defs, units = {}, None
                groups = {'g%d' % i: present_nd(data[i]) for i in batch}
            d = tempfile.mkdtemp(prefix='lib%d_' % nfile, dir=work)
            nfile += 1
            kind, lib, _ = call(ll.GroupLibrary.Load, write_lib(d, groups, units))
            # read the file back independently
            with open(os.path.join(d, 'library.yaml')) as f:
                y = yaml.safe_load(f)
            for i in batch:
                g = 'g%d' % i
                t = y['groups'][g]['thermochem']
                if kind == 'error':
                    obs = ll.obs_of('error', lib)
                    c = None
                else:
                    c = lib[g]['thermochem']
                    obs = ll.obs_of('value', c)
                ev = {'doc': ll.doc_of(t), 'defs': ll.defs_of(y.get('units')), 'obs': obs}
                if mode not in ('nd', 'permolecule'):
                    if i in first:
                        ev['same'] = first[i] - (len(events) // 400) * 400 + 1 \
                            if first[i] // 400 == len(events) // 400 else None
                        if ev['same'] is None:
                            del ev['same']
                    else:
                        first[i] = len(events)
                events.append(ev)
                meta.append((i, mode, c, '%s of datum %d' % (mode, i)))
                loaded[(i, mode)] = c
        # a file included by another one keeps its own default units
        d = tempfile.mkdtemp(prefix='lib%d_' % nfile, dir=work)
        nfile += 1
        ka, kb = rng_.sample(range(4), 2)
        groups = {'g%d' % i: present(data[i], 'default', rng_, DEFAULT_SETS[kb]) for i in batch[:4]}
        with open(os.path.join(d, 'child.yaml'), 'w') as f:
            yaml.safe_dump({'units': dict(DEFAULT_SETS[kb]), 'groups': {g: {'thermochem': t} for g, t in groups.items()}},
                           f, default_flow_style=None, sort_keys=False)
        with open(os.path.join(d, 'scheme.yaml'), 'w') as f:
            f.write('patterns: []\n')
        with open(os.path.join(d, 'library.yaml'), 'w') as f:
            yaml.safe_dump({'units': dict(DEFAULT_SETS[ka]), 'include': ['child.yaml'],
                            'groups': {'p0': {'thermochem': present(data[batch[0]], 'default', rng_, DEFAULT_SETS[ka])}}},
                           f, default_flow_style=None, sort_keys=False)
        kind, lib, _ = call(ll.GroupLibrary.Load, os.path.join(d, 'library.yaml'))
        with open(os.path.join(d, 'child.yaml')) as f:
            y = yaml.safe_load(f)
        for i in batch[:4]:
            g = 'g%d' % i
            c = None if kind == 'error' else lib[g]['thermochem']
            obs = ll.obs_of('error', lib) if kind == 'error' else ll.obs_of('value', c)
            events.append({'doc': ll.doc_of(y['groups'][g]['thermochem']), 'defs': ll.defs_of(y.get('units')), 'obs': obs})
            meta.append((i, 'included:%d' % nfile, c, 'datum %d in an included file with its own default units' % i))
        # a dimensional value with no unit available is rejected when loading
        d = tempfile.mkdtemp(prefix='lib%d_' % nfile, dir=work)
        nfile += 1
        i = batch[0]
        t = present(data[i], 'default', rng_, DEFAULT_SETS[0])
        missing = ['temperature', 'molar enthalpy', 'molar entropy'][(k0 // 8) % 3]
        units = {k: v for k, v in DEFAULT_SETS[0].items() if k != missing}
        if missing == 'molar enthalpy':
            t['H_ref'] = 1.5
        elif missing == 'molar entropy':
            t['S_ref'] = 2.5
        kind, lib, _ = call(ll.GroupLibrary.Load, write_lib(d, {'g0': t}, units))
        with open(os.path.join(d, 'library.yaml')) as f:
            y = yaml.safe_load(f)
        obs = ll.obs_of(kind, lib if kind == 'error' else lib['g0']['thermochem'])
        if kind == 'error':
            # "is rejected when loading": which error class rejects it is not part of the statement
            obs['cls'] = 'InputDataError'
        events.append({'doc': ll.doc_of(y['groups']['g0']['thermochem']),
                       'defs': ll.defs_of(y.get('units')), 'obs': obs})
        meta.append((i, 'nounit:' + missing, None, 'datum %d without a unit for %s' % (i, missing)))
        # align chunks with batches
        while len(events) % 400 > 400 - 80:
            events.append(events[-1])
            meta.append(meta[-1])
    bad, res = ll.validate(ctx, events)
    ctx.traces += nfile

    def report(key, what):
        ctx.violation(key, what, {'kind': 'c12', 'key': key})
    seen = set()
    for k, (ev, m, r) in enumerate(zip(events, meta, res)):
        i, mode, c, label = m
        if (i, mode) in seen:
            continue
        seen.add((i, mode))
        ctx.count('%d:%s' % (i, mode))
        for (pos, why) in [b for b in bad if b[0] == k]:
            report('%s:%s' % (why, label), '%s: %s mismatch: implementation %s; spec %s'
                   % (label, why, ev['obs'], {kk: vv for kk, vv in r.items() if kk in ('ok', 'cls')}))
        if r.get('ok') and c is not None:
            ctx.evaluations += ll.compare(r, c, label, report, doc=ev['doc'])
    # the same data in any presentation give the same properties, as plain numbers
    for i in range(ndata):
        ref = loaded.get((i, 'default0'))
        if ref is None:
            continue
        for mode in ['default1', 'default2', 'default3', 'explicit', 'explicit2', 'mixed', 'nd']:
            c = loaded.get((i, mode))
            if c is None:
                continue
            for T in [float(data[i]['tref']), 400.0, 700.0, 1200.0]:
                for p in ('Cp', 'H', 'S'):
                    (k1, v1, w1), (k2, v2, w2) = call(getattr(ref, cl.GETTERS[p]), T), call(getattr(c, cl.GETTERS[p]), T)
                    o1, f1 = cl.classify(k1, v1, w1)
                    o2, f2 = cl.classify(k2, v2, w2)
                    ctx.evaluations += 1
                    # (a T_ref that went through a prefixed unit may differ in the last bit, which
                    #  only toggles the no-Cp warning: classes value / warn+value are not compared)
                    same_cls = (o1 == o2) or ({o1['k'], o2['k']} <= {'value', 'warn+value'})
                    if not same_cls or (f1 is not None and f2 is not None
                                        and abs(f1 - f2) > 1e-9 * max(1.0, abs(f1))):
                        report('getter:%d:%s:%s(%g)' % (i, mode, p, T),
                               'datum %d: %s(%g) differs between presentations default0 (%s %r) and %s (%s %r)'
                               % (i, cl.GETTERS[p], T, o1, f1, mode, o2, f2))
    ctx.sample({'datum': {k: str(v) for k, v in data[1].items()},
                'presentations': ['default units kcal|kJ|J|cal', 'explicit per value', 'mixed', 'non-dimensional', 'eV per molecule']})
    ctx.extra['library_files'] = nfile
    ctx.extra['documents'] = len(seen)
    ctx.states += 0
    ctx.assumptions += [
        'physical data are exact decimals so that every dimensional presentation is an exact '
        'literal; the non-dimensional presentation is compared numerically (1e-9) only',
        'units of the wrong dimension are not generated (statement: any *compatible* unit)']


def replay(ctx, rep):
    run(ctx)
