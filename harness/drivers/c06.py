"""C06 - no property is returned outside the valid range unsignalled.

Same specifications as C05 and C01 (Correlation.tla, Estimate.tla); this check
reports the *outcome classes*: value / warn+value / error at every probe
(just inside, at, just outside and far outside each range bound, zero and
negative temperatures), construction failures, the estimate's range as the
intersection of its constituents' ranges, and that every value is a finite
plain number.  TLC theorems RangeGuard, RangeIsIntersection, OutsideSignalled.
"""
import tempfile

from .. import corrlib as cl
from .. import estlib as el
from ..common import call, MachineryError
from . import c01, c05

KNOWN_D30 = 'no-Cp correlation evaluated at its T_ref outside its own range'


def _merge_history(ctx, report):
    """An estimate made from one library, before or after that library was merged into another one
    that is then extended by overwriting: the estimate's range stays the intersection of the ranges
    of its constituents, and temperatures outside it stay refused (Estimate.tla RangeIsIntersection /
    OutsideSignalled, over the histories of Lifecycle.tla's Update)."""
    from pgradd.GroupAdd.Group import Descriptor
    from pgradd.ThermoChem import ThermochemGroup
    GL = el.GroupLibrary
    cp_a = {300.0: 3.0, 500.0: 4.0, 800.0: 4.5, 1000.0: 5.0}
    cp_w = dict(cp_a)
    cp_w[1500.0] = 5.5
    cp_n = {300.0: 3.0, 500.0: 4.0}

    def key(nm):
        return Descriptor(None, nm)

    def lib(entries):
        return GL(None, dict((key(nm), {'thermochem': ThermochemGroup(h, s_, cp, 298.15, rng)})
                             for nm, (h, s_, cp, rng) in entries.items()))
    n = 0
    for est_first in (False, True):
        for refit_cp, refit_rng in ((cp_w, (200.0, 1500.0)), (cp_n, (298.15, 500.0)), (cp_w, (298.15, 1500.0))):
            label = ('estimate made %s the merge; refit range %s' % ('before' if est_first else 'after', refit_rng,))
            kind, res, _ = call(lambda: (lib({'A': (-10.0, 12.0, cp_a, (298.15, 1000.0)),
                                              'B': (-4.0, 7.5, cp_w, (250.0, 1500.0))}), GL(None, {})))
            if kind == 'error':
                raise MachineryError('scratch libraries cannot be made: %r' % res)
            reference, working = res
            if est_first:
                est = reference.Estimate({'A': 2, 'B': 1}, 'thermochem')
            k1, e1, _ = call(working.Update, reference)
            if not est_first:
                est = reference.Estimate({'A': 2, 'B': 1}, 'thermochem')
            before = est.get_range()
            k2, e2, _ = call(working.Update, lib({'A': (-10.0, 12.0, refit_cp, refit_rng)}), True)
            if k1 == 'error' or k2 == 'error':
                continue           # merging itself is C13
            ctx.count('merge-history:' + label)
            want = (298.15, 1000.0)
            groups_now = [reference[g]['thermochem'].get_range() for g in ('A', 'B')]
            inter = (max(r[0] for r in groups_now), min(r[1] for r in groups_now))
            got = est.get_range()
            n += 1
            if tuple(got) != want or tuple(before) != want or tuple(inter) != want:
                report('range', 'merge-history-range:' + label,
                       'estimate from a library merged into another that was then extended (%s): range reported %r '
                       '(before the extension %r), its constituents now have %r; the intersection of the ranges given is %r'
                       % (label, got, before, groups_now, want))
                continue
            for T in (1000.5, 1200.0, 1500.0, 298.0, 250.0):
                for g_ in ('get_CpoR', 'get_HoRT', 'get_SoR', 'get_GoRT'):
                    k3, v3, w3 = call(getattr(est, g_), T)
                    n += 1
                    if k3 == 'value' and not w3:
                        report('class', 'merge-history:%s:%s(%g)' % (label, g_, T),
                               'estimate from a library merged into another that was then extended (%s): %s(%g) -> %r '
                               'without error or warning outside its range %r' % (label, g_, T, v3, got))
    ctx.evaluations += n
    ctx.extra['merge_histories'] = 6


def run(ctx):
    thorough = ctx.tier == 'thorough'
    cases = cl.run_mc(ctx, 'MC_Correlation_t.cfg' if thorough else 'MC_Correlation_q.cfg')
    ctx.log('MC_Correlation: %d cases' % len(cases))

    def report(tag, key, what):
        if tag in ('class', 'range'):
            ctx.violation(key, what, {'kind': tag, 'key': key})
    n = 0
    for j, case in enumerate(cases):
        ctx.count('corr%d' % j)
        n += cl.replay_case(case, report)
    ctx.evaluations += n
    ctx.sample({'case': cl.describe_case(cases[len(cases) // 3])})
    c05._general(ctx, 'class', thorough)
    head, maps = el.run_mc(ctx, 'MC_Estimate_t.cfg' if thorough else 'MC_Estimate_q.cfg')
    ctx.log('MC_Estimate: %d mappings' % len(maps))
    d = tempfile.mkdtemp(prefix='synth_', dir=ctx.scratch)
    kind, lib, _ = call(el.GroupLibrary.Load, el.write_synth(d, head['lib']))
    if kind == 'error':
        raise MachineryError('synthetic library does not load: %r' % lib)
    ctx.evaluations += el.replay_maps(ctx, head, maps, lib, report, with_se=False)
    for m in maps:
        ctx.distinct.add(el.show_map(m['x']))
    libs = cl.LIBS if thorough else ['BensonGA', 'GRWAqueous2018', 'PPY']
    # a scratch library whose ranges start at exactly 0 K: zero is a bound like any other
    import os
    zd = tempfile.mkdtemp(prefix='zero_', dir=ctx.scratch)
    with open(os.path.join(zd, 'scheme.yaml'), 'w') as f:
        f.write('patterns: []\n')
    with open(os.path.join(zd, 'library.yaml'), 'w') as f:
        f.write('groups:\n')
        for g, lo, hi, k1, k2 in (('z1', 0, 1000, 300, 800), ('z2', 200, 1500, 300, 1200), ('z3', 0, 800, 400, 700),
                                   ('z4', 0, 2000, 250, 1800), ('z5', 100, 900, 300, 600)):
            f.write('  %s:\n    thermochem:\n      T_ref: 298.15 K\n      ND_H_ref: 1.5\n      ND_S_ref: 2.0\n'
                    '      ND_Cp_data: [[%d K, 3.0], [%d K, 4.5]]\n      range: [%d K, %d K]\n' % (g, k1, k2, lo, hi))
    libs = list(libs) + [os.path.join(zd, 'library.yaml')]
    c01.real_sessions(ctx, libs, 200 if thorough else 40, 1 if thorough else 4,
                      ('class', 'range'), report, ctx.seed + 1)
    _merge_history(ctx, report)
    ctx.extra['mc'] = {'correlation_cases': len(cases), 'estimate_mappings': len(maps)}
    ctx.exhaustive = True
    ctx.assumptions += [
        '"raises an error" accepts OutsideCorrelationError (raw-data correlation) and '
        'IncompleteDataError (partial correlations / estimates wrap the range error)',
        'mappings whose constituents have an empty range intersection are not generated '
        '(the statement does not say what such an estimate is)']


def replay(ctx, rep):
    run(ctx)
