"""C05 - correlations are thermodynamically consistent with their data.

Pass A: 16 TLC processes evaluate MC_Correlation: tables of 1..6 points from
        polynomials of the matching spline order x every placement of T_ref and
        of T relative to lo <= T_min <= knots <= T_max <= hi x supply orders x
        complete/partial correlations, with closed-form expectation terms
        (rational + rational*ln(rational)); theorems Reproduces,
        IntegralIdentity, PlanIsIntegral, Gibbs, OrderFree, RangeGuard.
Run   : every case is built as ThermochemRawData / ThermochemIncomplete /
        ThermochemGroup and every probe compared (spec -> code).
Pass B: every group of every shipped library and seeded random tables are
        probed; Trace_Correlation (ranks of the real temperatures) decides the
        outcome class and how each value follows from the data; the harness
        evaluates that (table entries, reference values, end-value
        continuation in closed form, in-span segments by quadrature of the
        implementation's own Cp).
"""
import random

from .. import corrlib as cl
from ..common import call, MachineryError


def _general(ctx, want_tag, thorough):
    rng_ = random.Random(ctx.seed)
    traces, meta = [], []
    counters = {'table': 0, 'values': 0, 'quadrature_leaves': 0}
    libs = cl.LIBS if thorough else ['BensonGA', 'GRWSurface2018', 'XieGA2022']
    ngroups = 0
    for lib, gname, c in cl.shipped_groups(libs):
        if gname is None:
            ctx.violation('load:' + lib, 'library %s does not load: %r' % (lib, c),
                          {'kind': 'load', 'lib': lib})
            continue
        ngroups += 1
        if not thorough and ngroups % 3:
            continue
        table = dict((float(t), float(v)) for t, v in (c.ND_Cp_data or {}).items())
        r = c.get_range()
        rg = (float(r[0]), float(r[1])) if r is not None else None
        probes = cl.group_probes(c, rng_)
        h = c.ND_H_ref
        s = c.ND_S_ref
        try:
            hf = None if h is None else float(h)
            sf = None if s is None else float(s)
        except Exception:
            hf, sf = h, s
        evs, side, extra = cl.rank_trace(lambda c=c: ('value', c, []), sorted(table),
                                         None, float(c.T_ref), rg, hf, sf, probes,
                                         '%s/%s' % (lib, gname))
        traces.append(evs)
        meta.append(('%s/%s' % (lib, gname), table, float(c.T_ref), hf, sf, side, extra))
    # random tables, 1..16 points, unequal spacing, shuffled supply order
    nrand = 300 if thorough else 60
    for k in range(nrand):
        n = rng_.choice([1, 2, 3, 4, 5, 6, 8, 12, 16])
        ts = sorted(rng_.sample([float(x) for x in range(250, 1600, 25)], n))
        cps = [round(rng_.uniform(-3, 12), 3) for _ in ts]
        lo = rng_.choice([ts[0], ts[0] - 40.0, 200.0])
        hi = rng_.choice([ts[-1], ts[-1] + 75.0, 2000.0])
        tref = rng_.choice([lo, hi, ts[0], ts[-1], round(rng_.uniform(lo, hi), 2), 298.15
                            if lo <= 298.15 <= hi else lo])
        h, s = round(rng_.uniform(-40, 40), 3), round(rng_.uniform(-5, 30), 3)
        order = list(range(n))
        rng_.shuffle(order)
        tss, cpss = [ts[i] for i in order], [cps[i] for i in order]
        probes = sorted(set(ts + [tref, lo, hi, 0.0, -5.0, hi + 1.0, lo - 1.0]
                            + [round(rng_.uniform(lo, hi), 2) for _ in range(4)]))
        which = k % 3
        if which == 0:
            fac = lambda: call(cl.ThermochemRawData, h, s, tss, cpss, tref, (lo, hi))
            label = 'ThermochemRawData(random #%d, supplied %s)' % (k, tss)
        elif which == 1 and k % 2:
            # the same data arrived at by overwriting an earlier table on the same temperatures
            def fac(h=h, s=s, tss=tss, cpss=cpss, tref=tref, lo=lo, hi=hi):
                def make():
                    c = cl.ThermochemIncomplete(h, s, dict(zip(tss, [v + 1.0 for v in cpss])), tref, (lo, hi))
                    c.get_CpoR(tss[0])
                    c.update(cl.ThermochemIncomplete(None, None, dict(zip(tss, cpss)), tref, (lo, hi)), True)
                    return c
                return call(make)
            label = 'ThermochemIncomplete(random #%d, table overwritten by update)' % k
        elif which == 1:
            fac = lambda: call(cl.ThermochemIncomplete, h, s, dict(zip(tss, cpss)), tref, (lo, hi))
            label = 'ThermochemIncomplete(random #%d)' % k
        else:
            fac = lambda: call(cl.ThermochemGroup, h, s, dict(zip(tss, cpss)), tref, (lo, hi))
            label = 'ThermochemGroup(random #%d)' % k
        evs, side, extra = cl.rank_trace(fac, ts, None, tref, (lo, hi), h, s, probes, label)
        traces.append(evs)
        meta.append((label + ' Ts=%s Cp=%s T_ref=%s range=%s' % (ts, cps, tref, (lo, hi)),
                     dict(zip(ts, cps)), tref, h, s, side, extra))
    # TLC
    hows_all = []
    bad_all = set()
    for k0 in range(0, len(traces), 150):
        out, r = ctx.tlc_json('Trace_Correlation', 'Trace_Correlation.cfg',
                              {'traces': traces[k0:k0 + 150]})
        if not out.get('done'):
            raise MachineryError('Trace_Correlation did not finish')
        hows_all += out['how']
        for tid, pos in out['bad']:
            bad_all.add((k0 + tid - 1, pos - 1))
    ctx.traces += len(traces)
    # split hows per trace
    pos = 0
    reports = []

    def report(tag, key, what):
        reports.append((tag, key, what))
    for ti, (evs, m) in enumerate(zip(traces, meta)):
        hows = hows_all[pos:pos + len(evs)]
        pos += len(evs)
        label, table, tref, h, s, side, extra = m
        for (t2, p2) in sorted(b for b in bad_all if b[0] == ti):
            ev = evs[p2]
            T = side[p2][1] if side[p2] else None
            report('class', '%s.%s(T=%s)' % (label, ev.get('prop', 'construct'), T),
                   '%s: %s at T=%s -> %s; spec expects %s'
                   % (label, ev.get('prop', 'construct'), T, ev['obs'], hows[p2]))
        if extra is None:
            continue
        obj, temps = extra
        for ev in evs[1:]:
            ctx.count()
        try:
            cl.check_how(obj, temps, table, tref, h, s, evs, side, hows, report,
                         label, counters)
        except TypeError as e:     # non-numeric reference values (reported by class)
            report('class', label + ':nonnumeric', '%s: non-numeric data (%s)' % (label, e))
    ctx.extra['general_tables'] = {'traces': len(traces), 'shipped_groups': ngroups,
                                   'random_tables': nrand}
    ctx.extra.update(counters)
    for tag, key, what in reports:
        if tag == want_tag or want_tag is None:
            ctx.violation(key, what, {'kind': 'general', 'key': key})
    ctx.sample({'general_trace': meta[0][0], 'events': len(traces[0])})


def run(ctx):
    thorough = ctx.tier == 'thorough'
    cfg = 'MC_Correlation_t.cfg' if thorough else 'MC_Correlation_q.cfg'
    cases = cl.run_mc(ctx, cfg)
    ctx.log('MC_Correlation: %d cases' % len(cases))
    ctx.extra['mc'] = {'cfg': cfg, 'cases': len(cases)}

    def report(tag, key, what):
        if tag == 'value':
            ctx.violation(key, what, {'kind': 'case', 'key': key})
    n = 0
    for j, case in enumerate(cases):
        ctx.count(j)
        n += cl.replay_case(case, report)
    ctx.extra['probe_evaluations'] = n
    ctx.evaluations += n
    ctx.sample({'case': cl.describe_case(cases[len(cases) // 2])})
    _general(ctx, 'value', thorough)
    ctx.exhaustive = True
    ctx.assumptions += [
        'exact families: tables sampled from polynomials of degree <= min(3, N-1), '
        'reproduced exactly by the interpolating spline of that order; Cp, H compared '
        'at 1e-9, S and G at 5e-7 (the implementation integrates Cp/T numerically)',
        'general tables: in-span integrals are checked against quadrature of the '
        "implementation's own Cp (consistency, counted as quadrature_leaves), "
        'continuation segments in closed form']


def replay(ctx, rep):
    # cases are identified by their description; re-run the whole quick check
    run(ctx)
