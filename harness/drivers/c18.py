"""C18 - a correlation written to YAML reads back as the same correlation.

The text written by yaml_format() is read back *independently* (yaml.safe_load)
into a document whose meaning is given by LibLoad.tla; Trace_LibLoad decides
that the text is loadable at all, that exactly the parts the correlation has
(reference enthalpy, entropy, each Cp point, range - zero values included) are
present again, and emits the exact values the text denotes.  The harness
compares them with the original correlation (exactly in the non-dimensional
form, to the six significant digits written in the dimensional form) and with
what the implementation itself loads from that text (embedded in a library
file and through the tagged-value loader).
Correlations: every shape of a bounded family (H/S absent, zero, negative;
0..3 Cp points incl. a zero value; range present/absent), random tables of
0..15 points, and every group of the shipped libraries.
"""
import itertools
import os
import random
import tempfile

import numpy as np
import yaml

from .. import liblib as ll
from .. import corrlib as cl
from ..common import call, codes, MachineryError
from pgradd import yaml_io
from pgradd.ThermoChem import ThermochemGroup

UNIT_CHOICES = [
    {},
    {'molar enthalpy': 'kcal/mol', 'molar entropy': 'cal/(mol*K)', 'molar heat capacity': 'cal/(mol*K)'},
    {'molar enthalpy': 'kJ/mol', 'molar entropy': 'J/(mol*K)', 'molar heat capacity': 'J/(mol*K)', 'temperature': 'K'},
    {'molar enthalpy': 'J/mol', 'molar entropy': 'kJ/(mol*K)', 'molar heat capacity': 'cal/(mol*K)', 'temperature': 'kK'},
    {'molar enthalpy': 'kcal/mol', 'temperature': 'mK'},
    {'molar entropy': 'J/(mol*K)'},
]


def pres(c):
    return {'h': c.ND_H_ref is not None, 's': c.ND_S_ref is not None,
            'ncp': len(c.ND_Cp_data or {}), 'rng': c.get_range() is not None}


def shapes():
    out = []
    for h, s, ncp, rng in itertools.product([None, 0.0, -1.5, 7.0], [None, 0.0, 12.25],
                                            [0, 1, 2, 3], [None, (298.0, 1500.0)]):
        cp = dict(list({300.0: 3.5, 500.0: 0.0, 800.0: -2.25}.items())[:ncp])
        if cp and rng is None:
            continue
        out.append(('shape H=%s S=%s Cp=%s range=%s' % (h, s, cp, rng),
                    lambda h=h, s=s, cp=cp, rng=rng: ThermochemGroup(h, s, cp, 298.15, rng)))
        if ncp == 3 and s is None:
            back = dict(reversed(list(cp.items())))
            out.append(('shape H=%s S=%s Cp=%s (given backwards) range=%s' % (h, s, back, rng),
                        lambda h=h, s=s, cp=back, rng=rng: ThermochemGroup(h, s, cp, 298.15, rng)))
    # six significant digits of temperature are written: such temperatures come back as they are
    fine = {273.155: 3.5, 451.237: 1.25, 1000.0: 2.0}
    out.append(('shape H=1.5 S=None Cp=%s range=(250.0, 1500.0)' % fine,
                lambda: ThermochemGroup(1.5, None, dict(fine), 298.15, (250.0, 1500.0))))
    # an explicit range that happens to equal the span of the table is still an explicit range
    span = {300.0: 3.5, 500.0: 0.0, 800.0: -2.25}
    out.append(('shape H=0.5 S=1.0 Cp=%s range=(300.0, 800.0)' % span,
                lambda: ThermochemGroup(0.5, 1.0, dict(span), 300.0, (300.0, 800.0))))
    # small values keep their six digits
    tiny = {300.0: 1.23456e-05, 600.0: -4.5e-07}
    out.append(('shape H=3.25e-06 S=-1.5e-05 Cp=%s range=(250.0, 1500.0)' % tiny,
                lambda: ThermochemGroup(3.25e-06, -1.5e-05, dict(tiny), 298.15, (250.0, 1500.0))))
    close = {300.001: 1.0, 300.004: 2.0, 999.999: 3.0}
    out.append(('shape H=None S=2.0 Cp=%s range=(200.125, 1000.5)' % close,
                lambda: ThermochemGroup(None, 2.0, dict(close), 298.15, (200.125, 1000.5))))
    return out


def random_corrs(rng_, n):
    out = []
    for k in range(n):
        m = rng_.choice([0, 1, 2, 4, 7, 15])
        ts = sorted(rng_.sample([float(x) for x in range(300, 1600, 50)], m))
        if k % 5 == 0:
            ts = [round(t - rng_.choice([0.0, 0.125, 26.849, 0.003]), 3) if t < 1000 else t for t in ts]
        if k % 2:
            rng_.shuffle(ts)      # a table given in any insertion order is the same table
        cp = {t: round(rng_.uniform(-3, 15), 6) for t in ts}
        h = rng_.choice([None, 0.0, round(rng_.uniform(-80, 80), 5)])
        s = rng_.choice([None, 0.0, round(rng_.uniform(-10, 40), 5)])
        rg = (rng_.choice([250.0, 298.0, 298.15]), rng_.choice([1500.0, 2000.0])) if (cp or rng_.random() < .4) else None
        tref = rng_.choice([298.15, 298.0, 300.0])
        out.append(('random #%d H=%s S=%s Cp=%s T_ref=%s range=%s' % (k, h, s, cp, tref, rg),
                    lambda h=h, s=s, cp=cp, tref=tref, rg=rg: ThermochemGroup(h, s, cp, tref, rg)))
    return out


def run(ctx):
    thorough = ctx.tier == 'thorough'
    r0 = ctx.tlc('MC_LibLoad', 'MC_LibLoad.cfg', workers=8)
    ctx.log('MC_LibLoad: %d states, %d transitions' % (r0.distinct, r0.generated))
    ctx.extra['mc'] = {'distinct_states': r0.distinct, 'transitions': r0.generated}
    rng_ = random.Random(ctx.seed)
    corrs = []
    for label, mk in shapes() + random_corrs(rng_, 150 if thorough else 30):
        kind, c, _ = call(mk)
        if kind == 'value':
            corrs.append((label, c))
    libs = cl.LIBS if thorough else ['BensonGA', 'GRWSurface2018', 'GuSolventGA2017Aq']
    k = 0
    for lib, gname, c in cl.shipped_groups(libs):
        if gname is None:
            continue
        k += 1
        if thorough or k % 6 == 0:
            corrs.append(('%s/%s' % (lib, gname), c))

    def report(key, what):
        ctx.violation(key, what, {'kind': 'c18', 'key': key})
    events, meta = [], []
    work = tempfile.mkdtemp(prefix='c18_', dir=ctx.scratch)
    with open(os.path.join(work, 'scheme.yaml'), 'w') as f:
        f.write('patterns: []\n')
    for label, c in corrs:
        choices = UNIT_CHOICES if thorough else [UNIT_CHOICES[0], UNIT_CHOICES[1 + (len(label) % 5)]]
        for units in choices:
            ctx.count('%s|%s' % (label, sorted(units.items())))
            kind, text, _ = call(c.yaml_format, units)
            key = '%s units=%s' % (label, units)
            if kind == 'error':
                report('format:' + key, 'yaml_format(%s) of %s raised %r' % (units, label, text))
                continue
            # independent reading of the text
            try:
                y = yaml.safe_load(text)
                doc = ll.doc_of(y)
            except Exception as e:
                report('unreadable:' + key, 'yaml_format(%s) of %s wrote text that is not '
                       'plain YAML data (%s: %s):\n%s' % (units, label, type(e).__name__, str(e)[:80],
                                                           '\n'.join(text.splitlines()[:4])))
                continue
            # the implementation loads the text: in a library file ...
            body = '\n'.join('      ' + ln for ln in text.splitlines())
            with open(os.path.join(work, 'library.yaml'), 'w') as f:
                f.write('groups:\n  g:\n    thermochem:\n' + body + '\n')
            k1, lib2, _ = call(ll.GroupLibrary.Load, os.path.join(work, 'library.yaml'))
            c2 = lib2['g']['thermochem'] if k1 == 'value' else lib2
            # ... and as a tagged value
            k2, c3, _ = call(lambda: yaml_io.load(yaml_io.parse('!ThermochemGroup\n' + text)))
            obs = ll.obs_of(k1, c2)
            events.append({'doc': doc, 'defs': {}, 'obs': obs, 'orig': pres(c)})
            meta.append((key, c, units, k1, c2, k2, c3, text))
    bad, res = ll.validate(ctx, events)
    ctx.traces += len(events)
    for k, (ev, m, r) in enumerate(zip(events, meta, res)):
        key, c, units, k1, c2, k2, c3, text = m
        for (_, why) in [b for b in bad if b[0] == k]:
            report('%s:%s' % (why, key),
                   '%s: %s: original has %s; text denotes %s; implementation reloaded %s\n%s'
                   % (key, why, pres(c), {kk: vv for kk, vv in r.items() if kk in ('ok', 'cls')},
                      ev['obs'], '\n'.join(text.splitlines()[:6])))
        if not r.get('ok'):
            continue
        # the text against the original: exact (ND) / six significant digits (dimensional)
        dim_h = bool(units.get('molar enthalpy'))
        dim_s = bool(units.get('molar entropy'))
        dim_c = bool(units.get('molar heat capacity'))

        class Orig(object):
            pass
        ll.compare(r, c, key + ' [text vs original]', report, rel=6e-6, doc=ev['doc'])
        if not dim_h and c.ND_H_ref is not None and ev['doc']['h']:
            lit = ev['doc']['h'][0]['v'].get('lit')
            val = float(lit) if lit is not None else None
            if val is not None and val != float(c.ND_H_ref):
                report('nd-exact:' + key, '%s: ND_H_ref written as %r, original %r' % (key, val, c.ND_H_ref))
        if not dim_s and c.ND_S_ref is not None and ev['doc']['s']:
            lit = ev['doc']['s'][0]['v'].get('lit')
            if lit is not None and float(lit) != float(c.ND_S_ref):
                report('nd-exact:' + key, '%s: ND_S_ref written as %s, original %r' % (key, lit, c.ND_S_ref))
        # what the implementation reloads against what the text denotes
        if k1 == 'value':
            ctx.evaluations += ll.compare(r, c2, key + ' [reload vs text]', report, doc=ev['doc'])
        if k2 == 'error':
            report('tagged-load:' + key, '%s: loading the text as !ThermochemGroup raised %s: %s'
                   % (key, type(c3).__name__, str(c3)[:100]))
        elif k1 == 'value' and pres(c3) != pres(c2):
            report('tagged-load:' + key, '%s: tagged load and library load disagree' % key)
    ctx.sample({'correlation': meta[0][0], 'text': meta[0][7].splitlines()[:4]})
    ctx.extra['correlations'] = len(corrs)
    ctx.extra['texts'] = len(events)
    ctx.assumptions += ['"six significant digits" is taken as relative error <= 6e-6 of the written value']


def replay(ctx, rep):
    run(ctx)
