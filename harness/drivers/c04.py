"""C04 - a mixture's descriptors are the sum of its components'.

For pairs (and some triples) A, B of molecules, including self-pairs and
components the scheme cannot decompose, the disconnected species 'A.B' is
decomposed by the implementation and - on the graph of 'A.B' itself - by the
specification (Scheme.tla through MC_Scheme):
  * model theorem (locality): Decompose(A.B) = Decompose(A) + Decompose(B) on
    the specification, for every pair;
  * the implementation's descriptors of 'A.B' equal the sum of those of A and
    of B, equal the specification's, and the pair fails (pattern-match error)
    exactly when a component does.
"""
import os
import random
import tempfile
from fractions import Fraction

from .. import schemelib as sl
from ..common import call, MachineryError
from . import c02


def fbag(b):
    return {k: Fraction(v).limit_denominator(10**6) for k, v in b.items()}


def add_bags(*bags):
    out = {}
    for b in bags:
        for k, v in b.items():
            out[k] = out.get(k, 0) + v
    return out


def run(ctx):
    thorough = ctx.tier == 'thorough'
    rng_ = random.Random(ctx.seed)
    work = tempfile.mkdtemp(prefix='c04_', dir=ctx.scratch)
    names = c02.scheme_set(ctx, thorough, work)
    sj = [sl.scheme_json(n) for n in names]

    def report(key, what):
        ctx.violation(key, what, {'kind': 'c04', 'key': key})
    cases, groups = [], []
    for si, n in enumerate(names, 1):
        fam = c02.SYNTH_MOLS if os.sep in n else c02.FAMILY[n]
        pool = fam + c02.OUTSIDE[:2]
        npairs = (60 if thorough else (1 if fam is c02.PPYL else 4))
        mixes = []
        for _ in range(npairs):
            a, b = rng_.choice(pool), rng_.choice(pool)
            mixes.append([a, b])
            mixes.append([b, a])                       # component order must not matter
        mixes.append([fam[1], fam[1]])                 # self pair
        mixes.append([fam[0], fam[2], fam[3 % len(fam)]])   # a triple
        if fam is c02.PPYL:
            mixes += [['c1ccncc1', 'CC'], ['CC', 'c1ccncc1']]
        if fam is c02.GAS or (thorough and fam is c02.PPYL):
            mixes.append(['c1ccccc1', 'C1CCCCC1'])      # molecule-level prefixes see the whole input
            mixes.append(['CC', 'C=C'])
            # a remapped group of the first component whose target occurs natively in the second, and the reverse
            mixes += [['CO', 'CC'], ['CC', 'CO'], ['CC=C', 'CCC'], ['CCC', 'CC=C']]
            # a six-ring with a heteroatom before / after a benzene ring
            mixes += [['C1CCOCC1', 'c1ccccc1'], ['c1ccccc1', 'C1CCOCC1']]
            # a correction fed by a remap in one component and the correction itself in the other; a triple bond
            # beside an aromatic ring
            mixes += [['CC=CC', 'CC=C(C)C'], ['CC=C(C)C', 'CC=CC'], ['c1ccccc1', 'C#C'], ['C#C', 'c1ccccc1']]
        for comps in mixes:
            mix = '.'.join(comps)
            for s in comps + [mix]:
                cases.append((si, s, s, s))
            groups.append((si, comps, mix))
    cases = list(dict.fromkeys(cases))
    ctx.log('%d mixtures, %d decompositions by the specification' % (len(groups), len(cases)))
    out = c02.check_pairs(ctx, names, sj, cases, report)
    by = {(o[0], o[2]): o for o in out}
    for si, comps, mix in groups:
        name = names[si - 1]
        ctx.count('%s|%s' % (name, mix))
        parts = [by.get((name, c)) for c in comps]
        whole = by.get((name, mix))
        if whole is None or any(p is None for p in parts):
            continue
        # specification: locality
        spec_parts_ok = all(p[5]['ok'] for p in parts)
        if whole[5]['ok'] != spec_parts_ok:
            raise MachineryError('specification: %s decomposable=%s but components %s' % (mix, whole[5]['ok'], spec_parts_ok))
        if spec_parts_ok:
            want = add_bags(*[sl.bag_of(p[5]['bag']) for p in parts])
            if not sl.same_bag({k: v for k, v in sl.bag_of(whole[5]['bag']).items()}, want):
                raise MachineryError('specification is not additive on %s: %s vs %s'
                                     % (mix, sl.show_bag(sl.bag_of(whole[5]['bag'])), sl.show_bag(want)))
        # implementation: additivity and failure propagation
        impl_parts_ok = all(p[3] == 'value' for p in parts)
        if (whole[3] == 'value') != impl_parts_ok:
            report('mixture-failure:%s|%s' % (name, mix),
                   '%s: %s %s but its components %s' % (name, mix, 'decomposes' if whole[3] == 'value' else 'fails (%s)' % whole[4],
                                                        [('ok' if p[3] == 'value' else p[4]) for p in parts]))
            continue
        if impl_parts_ok:
            want = add_bags(*[fbag(p[4]) for p in parts])
            if not sl.same_bag(fbag(whole[4]), want):
                report('mixture-sum:%s|%s' % (name, mix), '%s: descriptors of %s = %s; sum over the components = %s'
                       % (name, mix, sl.show_bag(whole[4]), sl.show_bag(want)))
    ctx.extra['mixtures'] = len(groups)
    ctx.sample({'mixture': groups[0][2], 'scheme': names[groups[0][0] - 1]})
    ctx.assumptions += ['molecule-level RING prefixes are evaluated on the whole input by code and specification alike; '
                        'no shipped scheme entry uses one (the locality theorem is checked on every pair anyway)']


def replay(ctx, rep):
    run(ctx)
