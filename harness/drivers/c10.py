"""C10 - unit expressions evaluate to the exact SI value and dimension.

Pass A: 16 TLC processes evaluate MC_Units (every unit name x every prefix,
        every two-factor expression over a set of atoms, single-token mutants)
        with the TLA+ tokeniser / parser / evaluator of Units.tla, check the
        definitional identities and algebraic theorems, and export the exact
        magnitude (Mag) and exponents of every case.
Run   : every case is evaluated by pgradd.Units.eval_qty (spec -> code).
Pass B: seeded random conversion sessions (deeper expressions, in_units,
        to_SI_from, from_SI_to, malformed variants) recorded from the code are
        validated by Trace_Units (code -> spec); discrete parts are compared in
        TLC, magnitudes by the harness against the Mag TLC emits.
"""
import math
import random
from fractions import Fraction

from ..common import use_repo, call, codes, uncodes, MachineryError
from ..mag import mag_value, close

use_repo()
from pgradd.Units import eval_qty, Quantity                     # noqa: E402
from pgradd.Units.qty import FundamentalUnits                   # noqa: E402
from pgradd.Units import (in_units, with_units, has_units,      # noqa: E402
                          to_SI_from, from_SI_to)

PRIM = ['m', 'kg', 's', 'A', 'K', 'mol', 'cd']
ZERO = [[0, 1]] * 7


def _rat(x):
    f = Fraction(float(x)).limit_denominator(1000)
    if abs(float(f) - float(x)) > 1e-9:
        return ['inexact', repr(x)]
    return [f.numerator, f.denominator]


def observe(kind, v):
    """result of eval_qty -> (discrete record for TLC, float magnitude)"""
    if kind == 'error':
        return {'ok': False, 'cls': type(v).__name__}, None
    if isinstance(v, Quantity):
        return ({'ok': True, 'plain': False,
                 'dim': [_rat(e) for e in v.units.exps]}, float(v.value))
    if isinstance(v, (int, float)) and not isinstance(v, bool):
        return {'ok': True, 'plain': True, 'dim': ZERO}, float(v)
    return {'ok': False, 'cls': 'odd:' + type(v).__name__}, None


def _expect(r):
    if not r['ok']:
        return {'ok': False, 'cls': r['cls']}, None
    d = [list(e) for e in r['dim']]
    return ({'ok': True, 'plain': all(e[0] == 0 for e in d), 'dim': d},
            mag_value(r['mag']))


def _check_case(ctx, text, r, label):
    kind, v, _ = call(eval_qty, text)
    o, val = observe(kind, v)
    x, xval = _expect(r)
    if o != x:
        ctx.violation('%s:%s' % (label, text),
                      'eval_qty(%r): observed %s, spec expects %s' % (text, o, x),
                      {'kind': 'case', 'text': text, 'r': r})
        return False
    if x['ok'] and not close(val, xval):
        ctx.violation('%s-value:%s' % (label, text),
                      'eval_qty(%r) = %r SI, spec expects %r' % (text, val, xval),
                      {'kind': 'case', 'text': text, 'r': r})
        return False
    return True


def _conversions(ctx, text, r):
    """conversion laws on a quantity the spec accepts: ratio, there-and-back,
    helper agreement"""
    kind, q, _ = call(eval_qty, text)
    if kind == 'error' or not isinstance(q, Quantity):
        return
    xval = mag_value(r['mag'])
    unit = ' '.join('%s^(%d)' % (n, e[0]) if e[1] == 1 else '%s^%r' % (n, e[0] / e[1])
                    for n, e in zip(PRIM, r['dim']) if e[0] != 0)
    for factor_txt, factor in (('', 1.0), ('1000 ', 1000.0), ('0.25 ', 0.25)):
        u = factor_txt + unit
        k, num, _ = call(q.in_units, u)
        ctx.count()
        if k == 'error' or not close(num, xval / factor):
            ctx.violation('in_units:%s->%s' % (text, u),
                          '(%s).in_units(%r) = %r, spec expects %r'
                          % (text, u, num, xval / factor),
                          {'kind': 'conv', 'text': text, 'unit': u, 'r': r})
            continue
        k2, back, _ = call(lambda: with_units(num, u).in_units(text)
                           if num != 0 else 0.0)
        if k2 == 'error' or not close(back, 1.0 if num != 0 else 0.0, rel=1e-12):
            ctx.violation('there-and-back:%s->%s' % (text, u),
                          'converting %r to %r and back gives %r' % (text, u, back),
                          {'kind': 'conv', 'text': text, 'unit': u, 'r': r})
    # helpers agree
    k, a, _ = call(in_units, q, unit)
    k2, b, _ = call(to_SI_from, 3.0, text)
    k3, c, _ = call(from_SI_to, 3.0, text)
    k4, h, _ = call(has_units, q, unit)
    ok = (k == 'value' and close(a, xval) and k2 == 'value'
          and close(b, 3.0 * xval) and k3 == 'value' and close(c, 3.0 / xval)
          and k4 == 'value' and h is True or bool(h) is True)
    if not ok:
        ctx.violation('helpers:%s' % text,
                      'helpers disagree on %r: in_units=%r to_SI_from(3)=%r '
                      'from_SI_to(3)=%r has_units=%r (magnitude %r)'
                      % (text, a, b, c, h, xval),
                      {'kind': 'conv', 'text': text, 'unit': unit, 'r': r})
    # an incompatible unit is the units error
    other = 'K' if r['dim'][4][0] == 0 else 's'
    k5, e5, _ = call(q.in_units, unit + ' ' + other)
    if not (k5 == 'error' and type(e5).__name__ == 'UnitsError'):
        ctx.violation('incompatible:%s' % text,
                      '(%s).in_units(%r) did not raise UnitsError: %r'
                      % (text, unit + ' ' + other, e5),
                      {'kind': 'conv', 'text': text, 'unit': unit + ' ' + other, 'r': r})


# ------------------------------------------------------------ random sessions
NAMES = ['m', 'g', 's', 'A', 'K', 'mol', 'cd', 'N', 'Pa', 'J', 'W', 'C', 'V', 'F',
         'Ohm', 'molecule', 'in', 'ft', 'L', 'min', 'h', 'u', 'lb', 't', 'dyn',
         'lbf', 'bar', 'atm', 'torr', 'psi', 'cal', 'erg', 'BTU', 'eV', 'hp', 'P',
         'St']
PREFIXES = ['', '', '', 'k', 'm', 'c', 'M', 'u', 'n', 'da', 'h', 'd', 'G', 'p']


def _atom(rng, depth):
    r = rng.random()
    if r < .12:
        return rng.choice(['2', '3', '10', '2.5', '0.5', '4', '1000', '1.25'])
    if r < .25 and depth > 0:
        return '(' + _expr(rng, depth - 1) + ')'
    return rng.choice(PREFIXES) + rng.choice(NAMES)


def _factor(rng, depth):
    a = _atom(rng, depth)
    r = rng.random()
    if r < .35:
        p = rng.choice(['2', '3', '-1', '-2', '0.5', '(-1)', '(2)', '1', '0',
                        '1.5', '(0.5)'])
        return a + '^' + p
    return a


def _expr(rng, depth):
    n = rng.randint(1, 3)
    s = _factor(rng, depth)
    for _ in range(n - 1):
        op = rng.choice([' ', '*', '/', ' * ', ' / ', ' '])
        s += op + _factor(rng, depth)
    return s


def _mutate(rng, s):
    r = rng.random()
    if not s:
        return '('
    k = rng.randrange(len(s))
    if r < .3:
        return s[:k] + s[k + 1:]
    if r < .6:
        return s[:k] + rng.choice('()^*/ .$x1') + s[k:]
    if r < .8:
        return s[:k] + rng.choice(['foo', 'q', '^', ')', '((', 'Zz']) + s[k + 1:]
    return s[:k]


def _safe(text):
    """keep generated texts inside the statement: no zero, no huge powers"""
    return '0' not in text.replace('0.5', '').replace('10', '').replace('1000', '') \
        and len(text) < 60


def _session(rng, n, depth):
    evs = []
    cur = None
    while len(evs) < n:
        r = rng.random()
        if cur is None or r < .55:
            text = _expr(rng, depth)
            if rng.random() < .2:
                text = _mutate(rng, text)
            if not _safe(text):
                continue
            kind, v, _ = call(eval_qty, text)
            o, val = observe(kind, v)
            evs.append({'op': 'eval', 'text': codes(text), 'obs': o, '_val': val,
                        '_text': text})
            if o['ok']:
                cur = v
        elif r < .8:
            text = _expr(rng, 1)
            if not _safe(text):
                continue
            if isinstance(cur, Quantity):
                kind, v, _ = call(cur.in_units, text)
            else:
                # a plain number converts only to plain "units"
                kind, v, _ = call(lambda: in_units(cur * eval_qty('m'), '(' + text + ') m'))
                if kind == 'error' and type(v).__name__ not in ('UnitsError', 'UnitsParseError'):
                    continue
            if kind == 'value':
                o, val = {'ok': True, 'plain': True, 'dim': ZERO}, float(v)
            else:
                o, val = {'ok': False, 'cls': type(v).__name__}, None
            evs.append({'op': 'in_units', 'text': codes(text), 'obs': o,
                        '_val': val, '_text': text})
        else:
            text = _expr(rng, 1)
            if not _safe(text):
                continue
            lit = rng.choice(['3', '2.5', '0.125'])
            fn, op = ((to_SI_from, 'to_SI') if rng.random() < .5
                      else (from_SI_to, 'from_SI'))
            k0, u0, _ = call(eval_qty, text)
            if k0 == 'value' and not isinstance(u0, Quantity):
                continue      # helpers need a unit, a bare number has no .value
            kind, v, _ = call(fn, float(lit), text)
            if kind == 'value':
                o, val = {'ok': True, 'plain': True, 'dim': ZERO}, float(v)
            else:
                o, val = {'ok': False, 'cls': type(v).__name__}, None
            evs.append({'op': op, 'text': codes(text), 'val': codes(lit),
                        'obs': o, '_val': val, '_text': text})
    return evs


def _validate(ctx, evs, label):
    clean = [{k: v for k, v in e.items() if not k.startswith('_')} for e in evs]
    out, r = ctx.tlc_json('Trace_Units', 'Trace_Units.cfg', {'events': clean})
    if not out.get('done'):
        raise MachineryError('Trace_Units did not finish')
    bad = set(out['bad'])
    for i, (e, x) in enumerate(zip(evs, out['exp']), 1):
        desc = '%s(%r%s)' % (e['op'], e['_text'],
                             ', ' + uncodes(e['val']) if 'val' in e else '')
        if i in bad:
            ctx.violation('session:%s' % desc,
                          '%s: event %d %s observed %s; spec expects %s'
                          % (label, i, desc, e['obs'],
                             'a value' if x['ok'] else 'an error'),
                          {'kind': 'session', 'events': clean[:i]})
        elif x['ok'] and e['_val'] is not None:
            xv = mag_value(x['mag'])
            if not close(e['_val'], xv, rel=1e-11):
                ctx.violation('session-value:%s' % desc,
                              '%s: event %d %s = %r, spec expects %r'
                              % (label, i, desc, e['_val'], xv),
                              {'kind': 'session', 'events': clean[:i]})
    return out


def _check_def(ctx, ta, tb):
    """two spellings the spec proves identical: same observation, same magnitude,
    convertible into one another with ratio one"""
    (ka, va, _), (kb, vb, _) = call(eval_qty, ta), call(eval_qty, tb)
    oa, xa = observe(ka, va)
    ob, xb = observe(kb, vb)
    if not (oa['ok'] and ob['ok'] and oa == ob and close(xa, xb)):
        ctx.violation('definition:%s=%s' % (ta, tb),
                      '%r and %r must be the same quantity: %s %r vs %s %r'
                      % (ta, tb, oa, xa, ob, xb), {'kind': 'def', 'a': ta, 'b': tb})
        return
    if isinstance(va, Quantity) and isinstance(vb, Quantity):
        kc, c, _ = call(va.in_units, tb)
        kd, d, _ = call(in_units, vb, ta)
        if not (kc == 'value' and close(c, 1.0) and kd == 'value' and close(d, 1.0)):
            ctx.violation('definition-convert:%s=%s' % (ta, tb),
                          '(%s).in_units(%r) = %r and in_units(%s, %r) = %r; both must be 1'
                          % (ta, tb, c, tb, ta, d), {'kind': 'def', 'a': ta, 'b': tb})


def _display(ctx, thorough):
    """UnitShow.tla: the display of base-dimension exponents.  The texts the spec
    derives (the expected rendering and the pinned code's) are unit expressions, so
    their evaluation is C10 and is checked like any case; how the code *writes* a
    dimension is beyond the listed properties: compared with ShowImpl, recorded,
    never alarmed."""
    import contextlib
    import io
    out, r = ctx.tlc_json('UnitShow', 'UnitShow_t.cfg' if thorough else 'UnitShow_q.cfg',
                          {}, workers=16, timeout=3000)
    rows = out['rows']
    if len(rows) != out['total'] or not rows:
        raise MachineryError('UnitShow exported %d of %s rows' % (len(rows), out['total']))
    agree_impl = agree_show = deep = 0
    differs = []
    for row in rows:
        show, impl, build = uncodes(row['show']), uncodes(row['impl']), uncodes(row['build'])
        ctx.count('show:' + show)
        _check_case(ctx, show, row['rshow'], 'show')
        if impl != show:
            _check_case(ctx, impl, row['rimpl'], 'show')
        deep += bool(row['deep'])
        with contextlib.redirect_stdout(io.StringIO()):      # __str__ prints a debugging line
            kind, v, _ = call(lambda: str(eval_qty(build).units) if build != '1'
                              else str(FundamentalUnits.null()))
        agree_impl += (kind == 'value' and v == impl)
        agree_show += (kind == 'value' and v == show)
        if not (kind == 'value' and v == impl) and len(differs) < 5:
            differs.append({'dimension': build, 'str': repr(v), 'ShowImpl': impl})
    ctx.extra['beyond_properties_unit_display'] = {
        'spec': 'UnitShow.tla (RoundTrip, BuildDenotes, ImplRoundTrip, SameWhenShallow, Injective)',
        'dimensions': len(rows), 'distinct_states': r.distinct,
        'str_equals_ShowImpl': agree_impl, 'str_equals_Show': agree_show,
        'dimensions_whose_str_reads_back_as_another_dimension': deep,
        'differs_from_ShowImpl': differs,
        'note': 'str(units) keeps the negative exponent after the bar (J -> m^2*kg/s^(-2), which '
                'denotes m^2*kg*s^2); outside every listed property: recorded, not alarmed'}
    ctx.log('UnitShow: %d dimensions, str = ShowImpl on %d, = Show on %d'
            % (len(rows), agree_impl, agree_show))


def run(ctx):
    thorough = ctx.tier == 'thorough'
    cfg = 'MC_Units_t.cfg' if thorough else 'MC_Units_q.cfg'
    outs = ctx.tlc_shards('MC_Units', cfg, nshards=16, timeout=3000)
    total = outs[0]['total']
    cases = {}
    for o in outs:
        for j, c in o['cases'].items():
            cases[int(j)] = c
    if len(cases) != total:
        raise MachineryError('shards returned %d of %d cases' % (len(cases), total))
    defs = outs[0]['defs']
    ctx.extra['mc'] = {'cfg': cfg, 'cases': total, 'definition_pairs': len(defs)}
    ctx.log('MC_Units: %d cases evaluated by the spec' % total)
    nconv = 0
    for j in sorted(cases):
        text = uncodes(cases[j]['text'])
        r = cases[j]['r']
        ctx.count(text)
        ok = _check_case(ctx, text, r, 'case')
        if ok and r['ok'] and not all(e[0] == 0 for e in r['dim']) and \
                (' ' not in text and '*' not in text and '/' not in text or j % 23 == 0):
            _conversions(ctx, text, r)
            nconv += 1
    ctx.extra['conversion_cases'] = nconv
    ctx.sample({'case': uncodes(cases[total // 2]['text']),
                'spec': _expect(cases[total // 2]['r'])[0]})
    # definitional identities on the implementation
    for a, b in defs:
        ctx.count('def:' + uncodes(a))
        _check_def(ctx, uncodes(a), uncodes(b))
    # random sessions
    rng = random.Random(ctx.seed)
    nses, ln, depth = (40, 250, 3) if thorough else (8, 200, 2)
    sessions = [_session(rng, ln, depth) for _ in range(nses)]
    nev = 0
    for k, evs in enumerate(sessions):
        for e in evs:
            ctx.count(e['op'] + ':' + e['_text'])
        _validate(ctx, evs, 'session %d' % k)
        ctx.traces += 1
        nev += len(evs)
    ctx.extra['session_events'] = nev
    ctx.sample({'session_prefix': ['%s %r -> %s' % (e['op'], e['_text'],
                                   'value' if e['obs']['ok'] else e['obs']['cls'])
                                   for e in sessions[0][:5]]})
    _display(ctx, thorough)
    ctx.exhaustive = True
    ctx.assumptions += [
        'magnitudes compared at relative 1e-12 (1e-11 in random sessions)',
        'zero bases/divisors, |power| > 6 and non-ASCII names are not generated '
        '(arithmetic errors, not parse errors: outside the statement)',
        'unit definitions of spec/gen_unitdb.py (SI + documented conventional '
        'definitions) are the oracle; BTU is the only literal kept symbolic']


def replay(ctx, rep):
    c = rep['case']
    if c['kind'] == 'case':
        _check_case(ctx, c['text'], c['r'], 'case')
    elif c['kind'] == 'conv':
        _conversions(ctx, c['text'], c['r'])
    elif c['kind'] == 'def':
        _check_def(ctx, c['a'], c['b'])
    else:
        evs = []
        cur = None
        for e in c['events']:
            text = uncodes(e['text'])
            e2 = dict(e)
            e2['_text'] = text
            if e['op'] == 'eval':
                kind, v, _ = call(eval_qty, text)
                o, val = observe(kind, v)
                if o['ok']:
                    cur = v
            else:
                if e['op'] == 'in_units':
                    kind, v, _ = call(cur.in_units, text) if isinstance(cur, Quantity) \
                        else call(lambda: in_units(cur * eval_qty('m'), '(' + text + ') m'))
                else:
                    fn = to_SI_from if e['op'] == 'to_SI' else from_SI_to
                    kind, v, _ = call(fn, float(uncodes(e['val'])), text)
                if kind == 'value':
                    o, val = {'ok': True, 'plain': True, 'dim': ZERO}, float(v)
                else:
                    o, val = {'ok': False, 'cls': type(v).__name__}, None
            e2['obs'], e2['_val'] = o, val
            evs.append(e2)
        _validate(ctx, evs, 'replay')
