"""C08 - RING fragment matching returns exactly the embeddings it denotes.

Pass A: 16 TLC processes parse and read every fragment text with the TLA+
        reader (RingParser / RingReader) and compute, for every (fragment,
        molecule) pair, the set of embeddings with the backtracking matcher of
        RingMatch.tla (symbol classes, suffixes, prefixes, bond kinds,
        neighbour-count / ring-size / ring-count / radical constraints with
        negation and comparison, molecule prefixes, double-bond stereo);
        invariant WellFormedMatches.
Run   : Read(text).GetQueryMatches(mol) on the same pairs; the returned tuples
        must be exactly that set, without repetition (spec -> code).
Fragments: bounded-exhaustive one-atom fragments (symbol class x suffix x
        prefix; every constraint form x negation x comparison x count) and
        two-atom fragments (bond kinds x types), generated larger fragments
        (1..8 atoms, ring closures, several constraints, molecule prefixes),
        the patterns of the shipped schemes, each printed twice with different
        layout and label names.
Molecules: every sanitizable molecule with <= 3 heavy atoms over C/O/N with
        multiple bonds, radicals, charges, 3-rings; curated larger ones
        (aromatics, bicyclics, spiro, Pt/Ru adsorbates, dative bonds,
        zwitterion, cis/trans alkenes).
"""
import itertools
import random

from rdkit import Chem

from .. import ringgen as rg
from .. import molio
from ..common import use_repo, call, codes, MachineryError
from .c09 import shipped_texts, _vin, fenced

use_repo()
from pgradd.RINGParser import Read                     # noqa: E402

CURATED = ['c1ccccc1', 'Cc1ccccc1', 'c1ccncc1', 'c1ccoc1', 'C1CCCCC1', 'C1CC2CCC1C2', 'C1CCC2(C1)CCC2', 'C1CC1',
           'CC(C)(C)C', 'CC=CC', r'C/C=C\C', r'C/C=C/C', 'C#CC', 'C=C=C', 'CC(=O)OC', 'OCC(O)CO', 'CC(=O)[O-]',
           '[NH3+]CC([O-])=O', 'C[CH2]', '[CH2]C=C', '[CH]C', '[C]C', 'C([Pt])C', 'C([Pt])([Pt])C', 'OC([Pt])C',
           'C([Ru])C', 'C(=O)([Pt])O', 'C->[Pt]', 'CC->[Pt]', '[Pt][H]', 'O', '[H][H]', 'C', 'CO', 'c1ccc2ccccc2c1',
           'C1=CC=CC=C1', 'CSC', 'CP(C)C', 'ClCCl', 'C[Si](C)(C)C', 'N#N', '[O][O]', 'C1CO1', 'CC1=CCCCC1',
           # some hydrogens written as atoms (isotope labels), the others implicit
           '[2H]C(C)C', '[2H]OC', '[2H]O', '[2H]C([2H])=O']


def small_molecules():
    atoms = ['C', 'O', 'N', '[CH3]', '[CH2]', '[CH]', '[OH]', '[O]', '[NH2]', '[O-]', '[NH4+]', '[NH3+]', '[CH2-]']
    bonds = ['', '=', '#']
    cands = set(['C', 'O', 'N', '[CH3]', '[CH2]', '[OH]', '[OH-]', '[NH4+]', '[H+]', '[CH3-]'])
    heavy = ['C', 'O', 'N', '[CH2]', '[CH]', '[O]', '[NH]', '[O-]', '[NH3+]', '[N+]', '[C]']
    for a, b in itertools.product(heavy, repeat=2):
        for bd in bonds:
            cands.add(a + bd + b)
    core = ['C', 'O', 'N', '[CH]', '[O+]']
    for a, b, c in itertools.product(core, repeat=3):
        for b1, b2 in itertools.product(bonds, repeat=2):
            cands.add(a + b1 + b + b2 + c)
        cands.add('%s1%s%s1' % (a, b, c))
    cands.update(['C1=CC1', 'C1=NC1', 'C1OC1', 'N1NN1'])
    out, seen = [], set()
    for s in sorted(cands):
        m = Chem.MolFromSmiles(s)
        if m is None:
            continue
        can = Chem.MolToSmiles(m)
        if can in seen:
            continue
        seen.add(can)
        out.append(s)
    return out


def exhaustive_fragments():
    """bounded-exhaustive one- and two-atom fragments as texts"""
    out = []
    syms = ['C', 'O', 'N', 'H', 'Pt', '$', '&', 'X', 'any atom', 'heteroatom', 'heavy atom', 'M']
    sufs = ['', '+', '-', '.', ':', '+.', '-.', '?', ':.']
    pres = ['', 'aromatic', 'nonaromatic', 'ringatom', 'nonringatom', 'allylic']
    for s in syms:
        for suf in sufs:
            for p in pres:
                out.append('fragment a{%s%s%s labeled x1}' % (p + ' ' if p else '', s, suf))
    ops = ['', '=', '>', '<', '>=', '<=']
    nbs = ['C', 'O', 'H', '$', '&?', 'C.', 'Pt', 'X?', 'ringatom C', 'C?']
    bts = ['', 'single', 'double', 'triple', 'aromatic', 'any', 'ring', 'nonring', 'strong', 'partial']
    for neg in ('', '! '):
        for op in ops:
            for n in (0, 1, 2, 3):
                for nb in nbs[:6]:
                    out.append('fragment a{C? labeled x1 {%sconnected to %s%d %s}}' % (neg, op, n, nb))
                out.append('fragment a{$? labeled x1 {%sin ring of size %s%d}}' % (neg, op, n + 3))
                out.append('fragment a{$? labeled x1 {%sin %s%d ring}}' % (neg, op, n))
                out.append('fragment a{$? labeled x1 {%shas %s%d radical electrons}}' % (neg, op, n))
        for nb in nbs:
            for bt in bts:
                out.append('fragment a{$? labeled x1 {%sconnected to %s%s}}'
                           % (neg, nb, ' with %s bond' % bt if bt else ''))
    for bt in bts[1:] + ['quadruple']:
        for a, b in itertools.product(['C', 'O', '$', 'H', 'N?', 'X', 'Pt'], repeat=2):
            out.append('fragment a{%s labeled x1 %s labeled x2 %s bond to x1}' % (a, b, bt))
    for mp in ['positive', 'negative', 'neutral', 'aromatic', 'olefinic', 'paraffinic', 'cyclic', 'linear',
               'neutral olefinic linear', 'negative paraffinic']:
        out.append('%s fragment a{C labeled x1}' % mp)
        out.append('%s fragment a{O? labeled x1 C? labeled x2 any bond to x1}' % mp)
    st = ('fragment a{C labeled c1 C labeled c2 double bond to c1 C labeled c3 single bond to c1 '
          'C labeled c4 single bond to c2 stereo double bond c3 %s%s to c4 for double bond between c1 and c2}')
    for neg in ('', '! '):
        for k in ('cis', 'trans', 'notspecified'):
            out.append(st % (neg, k))
    return out


def run(ctx):
    thorough = ctx.tier == 'thorough'
    rng_ = random.Random(ctx.seed)
    frags = []          # (text, group id): texts of one group are printings of one structure
    gid = 0
    ex = exhaustive_fragments()
    if not thorough:
        ex = [t for k, t in enumerate(ex) if k % 4 == ctx.seed % 4 or 'stereo' in t or 'fragment a{C labeled x1}' in t]
    for t in ex:
        frags.append((t, gid))
        gid += 1
    ship = shipped_texts()
    for t in (ship if thorough else ship[::5]):
        frags.append((t, gid))
        gid += 1
    for _ in range(900 if thorough else 160):
        f = rg.fragment(rng_)
        t1, _ = rg.fragment_text(rng_, f, wild=True)
        t2, _ = rg.fragment_text(rng_, f, wild=True)
        if fenced(t1) or '*' in t1:
            continue
        frags.append((t1, gid))
        frags.append((t2, gid))
        gid += 1
    small = small_molecules()
    mols_smiles = (small if thorough else small[ctx.seed % 3::3]) + CURATED
    mols, mol_h = [], []
    for s in mols_smiles:
        m = Chem.MolFromSmiles(s)
        if m is None:
            continue
        mols.append((s, m))
        mol_h.append(molio.export(Chem.AddHs(m)))
    # the same species once more with its atoms numbered backwards: the query object is reused on it, so an
    # answer remembered per species (rather than computed per molecule) shows up as wrong atom indices
    twin = {}
    for k, (s, m) in enumerate(list(mols)):
        if m.GetNumAtoms() < 2 or (s not in CURATED and k % 4 != ctx.seed % 4):
            continue
        r = Chem.RenumberAtoms(m, list(reversed(range(m.GetNumAtoms()))))
        mols.append((s + ' [atoms numbered backwards]', r))
        mol_h.append(molio.export(Chem.AddHs(r)))
        twin[k + 1] = len(mols)
    pairs = []
    for fi, (t, g) in enumerate(frags, 1):
        big = len(t) > 400
        for mi in range(1, len(mols) - len(twin) + 1):
            if big and rng_.random() < .5:
                continue
            if not thorough and rng_.random() < .55:
                continue
            pairs.append([fi, mi])
            if mi in twin and (thorough or rng_.random() < .5):
                pairs.append([fi, twin[mi]])
    ctx.log('%d fragment texts, %d molecules, %d pairs' % (len(frags), len(mols), len(pairs)))
    data = {'frags': [codes(t) for t, _ in frags], 'mols': mol_h, 'pairs': pairs}
    outs = ctx.tlc_shards('MC_Match', 'MC_Match.cfg', nshards=16, env={'VIN': _vin(ctx, data)}, timeout=6000)
    res = {}
    for o in outs:
        for j, r in o['res'].items():
            res[int(j)] = r
    if len(res) != len(pairs):
        raise MachineryError('shards returned %d of %d pairs' % (len(res), len(pairs)))
    queries = {}
    nmatch = 0
    by_group = {}
    for j, (fi, mi) in enumerate(pairs, 1):
        text, g = frags[fi - 1]
        smi, m = mols[mi - 1]
        spec = res[j]
        if fi not in queries:
            queries[fi] = call(Read, text)
        kind, q, _ = queries[fi]
        ctx.count()
        if kind == 'error':
            if spec['ok']:
                ctx.violation('unreadable:%r' % text, 'Read(%r) raised %s but the specification reads it'
                              % (text, type(q).__name__), {'kind': 'pair', 'text': text, 'smiles': smi})
            continue
        if not spec['ok']:
            ctx.violation('readable:%r' % text, 'Read(%r) returned a query but the specification rejects it (%s)'
                          % (text, spec['why']), {'kind': 'pair', 'text': text, 'smiles': smi})
            continue
        k2, got, _ = call(q.GetQueryMatches, m)
        if k2 == 'error':
            ctx.violation('match-error:%r|%s' % (text, smi), 'GetQueryMatches(%r on %s) raised %s: %s'
                          % (text, smi, type(got).__name__, str(got)[:80]),
                          {'kind': 'pair', 'text': text, 'smiles': smi})
            continue
        got_l = [tuple(int(x) + 1 for x in t) for t in got]
        want = set(tuple(t) for t in spec['ms'])
        nmatch += len(want)
        ctx.distinct.add('%d|%d' % (g, mi))
        by_group.setdefault((g, mi), set()).add(frozenset(want))
        if set(got_l) != want or len(got_l) != len(set(got_l)):
            missing = sorted(want - set(got_l))[:3]
            extra = sorted(set(got_l) - want)[:3]
            ctx.violation('match:%r|%s' % (text, smi),
                          'fragment %r on %s: %d embeddings returned, the pattern denotes %d '
                          '(omitted e.g. %s; not satisfying it e.g. %s; repeated: %s)'
                          % (text, smi, len(got_l), len(want), missing, extra, len(got_l) != len(set(got_l))),
                          {'kind': 'pair', 'text': text, 'smiles': smi})
    # layout and label names do not matter: both printings of a structure denote the same set
    for (g, mi), sets in by_group.items():
        if len(sets) > 1:
            raise MachineryError('two printings of fragment structure %d denote different match sets in the spec' % g)
    ctx.extra['fragments'] = len(frags)
    ctx.extra['molecules'] = len(mols)
    ctx.extra['pairs'] = len(pairs)
    ctx.extra['embeddings'] = nmatch
    ctx.sample({'fragment': frags[len(ex) + 3][0][:300], 'molecule': mols[-5][0]})
    ctx.exhaustive = thorough
    ctx.assumptions += [
        'the molecule handed to TLC is RDKit\'s view after AddHs (atoms, bonds, ring list, stereo tags): an observation',
        'not generated (documented ambiguity): suffix *, lower-case symbols, group constraints, > 10000 raw matches',
        '"allylic" and the stereo-tag orientation rule are transcribed once from the implementation (FROZEN-FROM-IMPL)']


def replay(ctx, rep):
    c = rep['case']
    back = ' [atoms numbered backwards]'
    m = Chem.MolFromSmiles(c['smiles'].replace(back, ''))
    kind, q, _ = call(Read, c['text'])
    if c['smiles'].endswith(back):
        if kind != 'error':
            q.GetQueryMatches(m)        # the history: the same query object has seen the other numbering first
        m = Chem.RenumberAtoms(m, list(reversed(range(m.GetNumAtoms()))))
    data = {'frags': [codes(c['text'])], 'mols': [molio.export(Chem.AddHs(m))], 'pairs': [[1, 1]]}
    outs = ctx.tlc_shards('MC_Match', 'MC_Match.cfg', nshards=1, env={'VIN': _vin(ctx, data)})
    spec = (outs[0]['res'][0] if isinstance(outs[0]['res'], list) else outs[0]['res']['1'])
    if kind == 'error':
        if spec['ok']:
            ctx.violation('unreadable:%r' % c['text'], 'still unreadable', c)
        return
    got = set(tuple(int(x) + 1 for x in t) for t in q.GetQueryMatches(m))
    if spec['ok'] and got != set(tuple(t) for t in spec['ms']):
        ctx.violation('match:%r|%s' % (c['text'], c['smiles']), 'still differs', c)
