"""C03 - descriptors do not depend on how the molecule is written.

Every molecule is written many ways - canonical, Kekule, explicit-hydrogen and
random SMILES (different atom orders, branch orders and ring-closure choices;
every atom permutation for molecules with <= 6 heavy atoms in thorough mode)
and as a molecule object - and decomposed with every scheme of its family:
  * all spellings must give identical descriptors (or the same failure);
  * a sample of the spellings is decomposed by the specification too
    (Scheme.tla through MC_Scheme, on the graph of that very spelling), so that
    "all equal" cannot be satisfied by being equally wrong, and so that TLC
    checks the model theorem Decompose(pi . G) = Decompose(G) on those graphs.
Fused C6 aromatics, where the code's ring-by-ring aromatisation depends on the
Kekule form the toolkit happens to pick, are fenced and run as listed instances.
"""
import itertools
import os
import random
import tempfile

from rdkit import Chem

from .. import schemelib as sl
from ..common import call, MachineryError
from . import c02

# listed instances of the fused-aromatic finding, each with a fixed second spelling that shows it
FUSED = {'Cc1cccc2ccccc12': 'c12c(cccc1)cccc2C', 'c1ccc2cc3ccccc3cc2c1': 'c12c(cc3c(c1)cccc3)cccc2'}


def spellings(rng_, smi, n, all_perms=False):
    m = Chem.MolFromSmiles(smi)
    out = [smi, Chem.MolToSmiles(m)]
    km = Chem.Mol(m)
    try:
        Chem.Kekulize(km, clearAromaticFlags=True)
        out.append(Chem.MolToSmiles(km, kekuleSmiles=True))
    except Exception:
        pass
    out.append(Chem.MolToSmiles(Chem.AddHs(m), allHsExplicit=True))
    if all_perms and m.GetNumAtoms() <= 6:
        for perm in itertools.permutations(range(m.GetNumAtoms())):
            out.append(Chem.MolToSmiles(Chem.RenumberAtoms(m, list(perm)), canonical=False))
    else:
        for _ in range(n):
            out.append(Chem.MolToSmiles(m, doRandom=True, canonical=False))
            perm = list(range(m.GetNumAtoms()))
            rng_.shuffle(perm)
            out.append(Chem.MolToSmiles(Chem.RenumberAtoms(m, perm), canonical=False))
    res, seen = [], set()
    for s in out:
        if s not in seen and Chem.MolFromSmiles(s) is not None:
            seen.add(s)
            res.append(s)
    return res


def run(ctx):
    thorough = ctx.tier == 'thorough'
    rng_ = random.Random(ctx.seed)
    work = tempfile.mkdtemp(prefix='c03_', dir=ctx.scratch)
    names = c02.scheme_set(ctx, thorough, work)
    sj = [sl.scheme_json(n) for n in names]

    def report(key, what):
        ctx.violation(key, what, {'kind': 'c03', 'key': key})
    cases = []
    nsp = 0
    fused_keys = set()
    for si, n in enumerate(names, 1):
        if os.sep in n:
            mols = c02.SYNTH_MOLS
        else:
            fam = c02.FAMILY[n]
            mols = fam if thorough else (fam[:4] + [r'C/C=C\C'] if fam is c02.PPYL else
                                         fam[(ctx.seed + 1) % 3::3][:12] + ([r'C/C=C\CCCCC/C=C\C'] + c02.KEY) * (fam is c02.GAS))
            mols = list(dict.fromkeys(mols)) + c02.OUTSIDE[:2]
            if fam is c02.GAS or (thorough and fam is c02.PPYL):
                mols = mols + list(FUSED)
        for smi in mols:
            sp = spellings(rng_, smi, 30 if thorough else 6, all_perms=thorough)
            if smi in FUSED:
                sp = [smi, FUSED[smi]]
            results = []
            for k, s in enumerate(sp):
                kind, bag, _ = sl.decompose(n, s)
                results.append((s, kind, bag))
                nsp += 1
                if k % (5 if thorough else 3) == 0 and smi not in FUSED:
                    cases.append((si, '%s [spelling of %s]' % (s, smi), s, s))
            # the molecule object
            kind, bag, _ = sl.decompose(n, Chem.MolFromSmiles(smi))
            results.append(('<Chem.Mol of %s>' % smi, kind, bag))
            # a molecule object that already carries its hydrogens, handed in twice
            mh = Chem.MolFromSmiles(smi)
            if mh is not None:
                mh = Chem.AddHs(mh)
                for again in ('', ', second call'):
                    kind, bag, _ = sl.decompose(n, mh)
                    results.append(('<Chem.Mol of %s with explicit H%s>' % (smi, again), kind, bag))
            ctx.count('%s|%s' % (n, smi))
            ref = results[0]
            for s, kind, bag in results[1:]:
                same = (kind == ref[1]) and (bag == ref[2] if kind == 'error' else sl.same_bag(
                    {k_: __import__('fractions').Fraction(v).limit_denominator(10**6) for k_, v in bag.items()},
                    {k_: __import__('fractions').Fraction(v).limit_denominator(10**6) for k_, v in ref[2].items()}))
                if not same:
                    key = ('fused-aromatic:%s' % smi) if smi in FUSED else 'spelling:%s|%s' % (
                        os.path.basename(os.path.dirname(n)) if os.sep in n else n, smi)
                    if key in fused_keys:
                        break
                    fused_keys.add(key)
                    report(key, '%s: two spellings of one molecule give different descriptors: %s -> %s ; %s -> %s'
                           % (n, ref[0], sl.show_bag(ref[2]) if ref[1] == 'value' else ref[2], s,
                              sl.show_bag(bag) if kind == 'value' else bag))
                    break
    ctx.log('%d spellings decomposed; %d of them also by the specification' % (nsp, len(cases)))
    c02.check_pairs(ctx, names, sj, cases, report)
    ctx.extra['spellings'] = nsp
    ctx.extra['spellings_checked_by_spec'] = len(cases)
    ctx.sample({'molecule': 'CC(C)O', 'spellings': spellings(random.Random(1), 'CC(C)O', 3)})
    ctx.assumptions += [
        'spellings are produced by RDKit (random SMILES, renumbering, Kekule and explicit-H output)',
        'fused C6 aromatics are run as listed instances only (known finding)']


def replay(ctx, rep):
    run(ctx)
