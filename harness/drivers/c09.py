"""C09 - reading RING text always ends with a query or a RING error.

Pass A: (1) RingScan.tla: the identifier scanner as a small-step machine -
        bounded look-ahead, maximal-run result and termination under weak
        fairness; the unguarded variant (the original code) must violate the
        bound.  (2) 16 TLC processes read the whole corpus with the TLA+ PEG
        interpreter (RingParser.tla over the hand-transcribed RingGrammar.tla)
        and RingReader.tla: outcome class of every text, set of classes the
        statement allows, position of syntax errors (invariants OutcomeClass,
        ErrorInsideText).
Run   : every text is read by pgradd under an execution budget; the observed
        outcome class must be one the specification allows, syntax-error
        positions must lie inside the text, accepted texts are consumed in
        full (the spec accepts only complete parses).
Corpus: valid fragments and rules from the harness generator (random layout
        and label names), every pattern of the shipped schemes, every prefix,
        single-token deletions, duplications, substitutions and insertions,
        character truncations; plus printable / non-ASCII noise, empty and
        blank input (the noise is checked against the generic clauses only).
"""
import random
import signal
import sys

import yaml
import glob
import os

from .. import ringgen as rg
from ..common import use_repo, call, codes, MachineryError, REPO, Budget

use_repo()
from pgradd.RINGParser import Read                          # noqa: E402
from pgradd.Error import RINGSyntaxError                    # noqa: E402

ALLOWED_GENERIC = ('MolQuery', 'ReactionQuery', 'RINGSyntaxError', 'RINGReaderError', 'NotImplementedError')
KNOWN_DEV = {'dev:lowercase-symbol': ('AttributeError',), 'dev:label-AtomLabel': ('TypeError',),
             'dev:reactant-group': ('IndexError', 'TypeError', 'KeyError')}


def _alarm(signum, frame):
    raise Budget()


def read_with_budget(text, seconds=3, lines=1000000):
    """outcome of Read(text): (class name, exception or object).  A text that does not
    finish within the wall-clock allowance is re-run under a line-event budget
    (deterministic) before it is called non-terminating."""
    signal.signal(signal.SIGALRM, _alarm)
    signal.setitimer(signal.ITIMER_REAL, seconds)
    try:
        kind, v, _ = call(Read, text)
        signal.setitimer(signal.ITIMER_REAL, 0)
    except Budget:
        signal.setitimer(signal.ITIMER_REAL, 0)
        n = [0]

        def tr(frame, event, arg):
            if event == 'line':
                n[0] += 1
                if n[0] > lines:
                    raise Budget()
            return tr
        sys.settrace(tr)
        try:
            kind, v, _ = call(Read, text)
        except Budget:
            return 'DOES-NOT-TERMINATE', None
        finally:
            sys.settrace(None)
    if kind == 'error':
        return type(v).__name__, v
    return type(v).__name__, v


def inside(text, exc):
    lines = text.split('\n')
    return 1 <= exc.lineno <= len(lines) and 1 <= exc.colno <= len(lines[exc.lineno - 1]) + 1


def shipped_texts():
    out = []
    for f in sorted(glob.glob(os.path.join(REPO, 'pgradd', 'data', '*', 'scheme.yaml'))):
        with open(f) as fh:
            y = yaml.safe_load(fh)
        for p in y['patterns'] + (y.get('other_descriptors') or []):
            out.append(p['connectivity'])
    return sorted(set(out))


EXPLICIT = [
    'fragment a{C labeled c1 {connected to group g}}', 'fragment a{C labeled c1 C labeled c2 single bond to c2}',
    'fragment a{C labeled c1 ringbond c1 single bond to c1}',
    'fragment a{C labeled c1 C labeled c2 single bond to c1 ringbond c1 single bond to c2}',
    'fragment a{C labeled c1 C labeled c1 single bond to c1}', 'fragment a{C labeled c1 C labeled c2 single bond to c9}',
    'fragment a{Zz labeled c1}', 'fragment a{Xx labeled c1}', 'fragment a{C labeled c1 {|| connected to C}}',
    'fragment a{C labeled c1 {connected to Qq}}', 'fragment a{C labeled c1 {&& in ring of size 5}}',
    'rule r{ reactant r1{ C labeled c1 H labeled h1 single bond to c1 } constraints{ r1.size > 3 } break bond(c1,h1) }',
    'rule r{ reactant r1{ C labeled c1 H labeled h1 single bond to c1 } constraints{ r1 is cyclic } break bond(c1,h1) }',
    'rule r{ reactant r1{ C labeled c1 H labeled h1 single bond to c1 } constraints{ r1.formula is C2H6 } break bond(c1,h1) }',
    'rule r{ reactant r1{ C labeled c1 H labeled h1 single bond to c1 } constraints{ r1 is foo && r1.charge = 0 } break bond(c1,h1) }',
    'rule r{ reactant r1{ C labeled c1 H labeled h1 single bond to c1 } break bond(c1,h1) }',
    'rule r{ reactant r1{ C labeled c1 H labeled h1 single bond to c1 } modify atomtype (c1, C) }',
    'rule r{ reactant r1{ C labeled c1 H labeled h1 single bond to c1 } modify atomtype (c1, C.) increase number of radical (h1) break bond(c1,h1) }',
    'rule r{ reactant r1{ C labeled c1 H labeled h1 single bond to c1 } break double bond(c1,h1) }',
    'rule r{ reactant r1{ C labeled c1 H labeled h1 single bond to c1 H labeled h2 single bond to c1 } break bond(h2,h1) }',
    'rule r{ reactant r1{ C labeled c1 H labeled h1 any bond to c1 } break bond(c1,h1) }',
    'rule r{ reactant r1{ C labeled c1 H labeled h1 single bond to c1 } form bond(c1,zz) }',
    'rule r{ reactant r1{ C labeled c1 H labeled h1 single bond to c1 } form ring bond(c1,h1) }',
    'rule r{ reactant r1{ C. labeled c1 } reactant r2{ H. labeled h1 } decrease number of radical (c1) decrease number of radical (h1) form bond(c1,h1) }',
    'rule r{ reactant r1{ C. labeled c1 } reactant r2{ H. labeled h1 } break bond(c1,h1) }',
    'rule r{ reactant r1{ C labeled c1 C labeled c2 double bond to c1 } modify bond (c1, c2, single) increase number of radical (c1) increase number of radical (c2) }',
    'rule r{ reactant r1{ C labeled c1 C labeled c2 ring bond to c1 } modify bond (c1, c2, single) }',
    'fragment a{C labeled c1 C labeled c2 double bond to c1 stereo double bond c1 cis to c9 for double bond between c1 and c2}',
    'fragment a{C labeled c1 C labeled c2 double bond to c1 C labeled c3 single bond to c1 C labeled c4 single bond to c2 '
    'stereo double bond c3 cis to c4 for double bond between c1 and c2}',
    'fragment a{C labeled c1 C labeled c2 single bond to c1 C labeled c3 single bond to c1 C labeled c4 single bond to c2 '
    'stereo double bond c3 trans to c4 for double bond between c1 and c2}',
    'fragment a{C labeled c1 C labeled c2 double bond to c1 C labeled c3 single bond to c1 C labeled c4 single bond to c1 '
    'stereo double bond c3 ! cis to c4 for double bond between c1 and c2}',
    'fragment a{C labeled c1 {has 1 radical electrons}}', 'fragment a{M labeled m1}', 'fragment a{C* labeled c1}',
    'fragment abc', 'fragment a{C labeled c1} garbage', 'fragment a{C labeled c1}}', '', ' ', '   \n ', '\n\n\t',
    'fragment', 'rule', 'fragment a', 'fragment a{', 'fragment a{C', 'fragment a{C labeled', 'fragment a{C labeled c1',
    'positive aromatic cyclic fragment a{C labeled c1}', 'fragment a{c? labeled c1}', 'fragment a{c. labeled c1}',
]
# instances of the recorded deviations (fenced: the generator never produces these classes)
DEV_INSTANCES = ['fragment a{c labeled c1}', 'fragment a{c+ labeled c1}', 'fragment a{C labeled c1 {connected to c}}',
                 'fragment a{C labeled AtomLabel C labeled c2 single bond to AtomLabel}',
                 'rule r{ reactant r1 group g (a => b) break bond(c1,h1) }',
                 'rule r{ reactant r1{ C labeled c1 H labeled h1 single bond to c1 } reactant r2 duplicates r1 '
                 '(c1 => c2, h1 => h2) increase number of radical (c1) increase number of radical (h1) break bond(c1,h1) }']


def fenced(text):
    """texts of the known-deviation classes are kept out of the generated corpus:
    lower-case element symbols, a label literally named AtomLabel, reactant groups / duplicates"""
    toks = rg.tokens(text)
    if 'AtomLabel' in toks or 'duplicates' in toks:
        return True
    for k, t in enumerate(toks):
        if t == 'group' and k >= 2 and toks[k - 2] == 'reactant':
            return True
        if t[0].islower() and len(t) <= 2 and t.capitalize() in ELEMS and t not in ('in', 'to', 'of', 'is', 'has'):
            # a possible aromatic (lower-case) element symbol in atom-type position
            nxt = toks[k + 1] if k + 1 < len(toks) else ''
            prev = toks[k - 1] if k else ''
            if nxt in ('labeled', '+', '-', '.', ':', '?', '*', ',', '}', 'with') or prev in ('{', 'to', ',', '!'):
                return True
    return False


ELEMS = set("H He Li Be B C N O F Ne Na Mg Al Si P S Cl Ar K Ca Sc Ti V Cr Mn Fe Co Ni Cu Zn Ga Ge As Se Br Kr Rb Sr Y Zr "
            "Nb Mo Tc Ru Rh Pd Ag Cd In Sn Sb Te I Xe Cs Ba La Ce Pr Nd Pm Sm Eu Gd Tb Dy Ho Er Tm Yb Lu Hf Ta W Re Os Ir "
            "Pt Au Hg Tl Pb Bi Po At Rn Fr Ra Ac Th Pa U Np Pu Am Cm Bk Cf Es Fm Md No Lr Rf Db Sg Bh Hs Mt Ds Rg Cn Nh Fl "
            "Mc Lv Ts Og".split())


# rules with a constraints section (recognised, not supported): every character-level prefix of them is read
CONSTRAINED = [
    "rule k1{ reactant r1{ C labeled c1 H labeled h1 single bond to c1 } constraints{ r1.formula is C2H4O } "
    "increase number of radical (c1) increase number of radical (h1) break bond(c1,h1) }",
    "rule k2{ reactant r1{ C labeled c1 C labeled c2 double bond to c1 } constraints{ r1.size <4 && r1 is cyclic } "
    "decrease bond order (c1,c2) increase number of radical (c1) increase number of radical (c2) }",
    "rule k3{ reactant r1{ O labeled o1 H labeled h1 single bond to o1 } constraints{ ! r1 is aromatic || "
    "( r1.charge =0 && r1.formula is CH4O ) } break bond(o1,h1) increase number of radical (o1) "
    "increase number of radical (h1) }",
    "rule k4{ reactant r1{ C. labeled c1 {has 1 radical electrons, in ring of size >3} C labeled c2 single bond to c1 } "
    "modify number of radical (c1, 12) increase number of radical (c2) }",
    # formulas with two-letter element symbols: a text may break off right after the lower-case letter
    "rule k5{ reactant r1{ C labeled c1 H labeled h1 single bond to c1 } constraints{ r1.formula is CH3Cl || "
    "r1.formula is Na } break bond(c1,h1) increase number of radical (c1) increase number of radical (h1) }",
]


def nested(depth, broken=False, where='head'):
    """a constraints section with `depth` nested parentheses, the inner group first / last / alone in its
    parenthesis (reading time must stay proportional to the text)"""
    inner = 'r1.size <4'
    for k in range(depth):
        op = '&&' if k % 2 else '||'
        inner = ('( %s %s r1 is cyclic )' % (inner, op) if where == 'head' else
                 '( r1 is cyclic %s %s )' % (op, inner) if where == 'tail' else '( %s )' % inner)
    if broken:
        inner = inner[:-1]
    return ("rule n%d{ reactant r1{ C labeled c1 H labeled h1 single bond to c1 } constraints{ %s } "
            "break bond(c1,h1) increase number of radical (c1) increase number of radical (h1) }" % (depth, inner))


def build_corpus(rng_, thorough):
    base = []
    nfrag, nrule = (600, 300) if thorough else (110, 60)
    for _ in range(nfrag):
        f = rg.fragment(rng_)
        base.append(rg.fragment_text(rng_, f)[0])
    for _ in range(nrule):
        r = rg.rule(rng_, balanced=rng_.random() < .6)
        base.append(rg.rule_text(rng_, r)[0])
    ship = shipped_texts()
    base += ship if thorough else ship[::4]
    corpus = list(base) + EXPLICIT
    for t in CONSTRAINED:
        corpus.append(t)
        corpus += [t[:k] for k in range(len(t))] if thorough else [t[:k] for k in range(0, len(t), 2)]
        corpus += rg.mutants(rng_, t, per_kind=None if thorough else 8)
    # characters that are digits / letters for Python but not for the RING grammar, where a number is expected
    for ch in ('\u00b2', '\u0663', '\u2460', '\uff11', '\u00bd'):
        corpus += ['fragment a{ C labeled c1 {in ring of size %s} }' % ch,
                   'fragment a{ C labeled c1 {connected to >%s C} }' % ch,
                   'fragment a{ C labeled c1 {has 1%s radical electrons} }' % ch,
                   'rule r{ reactant r1{ C labeled c1 } modify number of radical (c1, %s) }' % ch,
                   'fragment a{ C labeled c%s }' % ch]
    # modify atomtype with everything an atom type may carry
    for at in ('C', 'C.', 'C+', 'C-', 'C:', 'O', 'aromatic C', 'aromatic C+', 'nonaromatic C.', 'ringatom C', 'allylic C',
               'C*', '$', 'X', 'heavy atom'):
        corpus.append('rule r{ reactant r1{ C labeled c1 } modify atomtype (c1, %s) }' % at)
        corpus.append('rule r{ reactant r1{ C. labeled c1 H labeled h1 single bond to c1 } modify atomtype (c1, %s) '
                      'break bond(c1,h1) increase number of radical (h1) }' % at)
    for depth in (2, 6, 14, 22, 30):
        for where in ('head', 'tail', 'alone'):
            corpus += [nested(depth, where=where), nested(depth, broken=True, where=where)]
    # a carriage return is not filler: alone, before a line feed, at the very end
    for t in base[::(3 if thorough else 9)]:
        toks = t.split(' ')
        k = rng_.randrange(len(toks))
        corpus.append(' '.join(toks[:k]) + '\r' + ' '.join(toks[k:]))
        corpus.append(t.replace('\n', '\r\n', 1) if '\n' in t else t + '\r\n')
        corpus.append(t + '\r')
    for t in base:
        corpus += rg.mutants(rng_, t, per_kind=None if thorough and len(t) < 160 else (6 if thorough else 4))
    seen, out = set(), []
    for t in corpus:
        if t in seen or len(t) > 1500:
            continue
        seen.add(t)
        out.append(t)
    return base, out


def run(ctx):
    thorough = ctx.tier == 'thorough'
    r1 = ctx.tlc('RingScan', 'RingScan_ok.cfg', workers=4)
    r2 = ctx.tlc('RingScan', 'RingScan_orig.cfg', workers=1, expect_violation=True, count=False)
    if r2.violated != 'Bounded':
        raise MachineryError('the unguarded scanner should violate Bounded')
    ctx.log('RingScan: %d states; Bounded, TakenIsMaximalRun, Terminates hold; unguarded variant violates Bounded'
            % r1.distinct)
    rng_ = random.Random(ctx.seed)
    base, corpus = build_corpus(rng_, thorough)
    ascii_texts = [t for t in corpus if all(ord(c) < 128 for c in t)]
    gen = [t for t in ascii_texts if not fenced(t)]
    ctx.log('corpus: %d base texts, %d texts (%d read by the TLA+ reader)' % (len(base), len(corpus), len(gen)))
    specs = {}
    texts_json = {'texts': [codes(t) for t in gen + DEV_INSTANCES]}
    outs = ctx.tlc_shards('MC_Ring', 'MC_Ring.cfg', nshards=16, env={'VIN': _vin(ctx, texts_json)}, timeout=3000)
    for o in outs:
        for j, r in o['res'].items():
            specs[int(j)] = r
    if len(specs) != len(gen) + len(DEV_INSTANCES):
        raise MachineryError('shards returned %d of %d texts' % (len(specs), len(gen) + len(DEV_INSTANCES)))
    counts = {}
    # noise and fenced texts: generic clauses only
    extra = [t for t in corpus if t not in set(gen)] + rg.noise(rng_, 400 if thorough else 120)
    for t in extra:
        if _hangs(ctx) >= 3:
            break
        cls, v = read_with_budget(t)
        ctx.count()
        _generic(ctx, t, cls, v, None)
    for k, t in enumerate(gen + DEV_INSTANCES, 1):
        spec = specs[k]
        if _hangs(ctx) >= 3:
            ctx.notes.append('stopped after three non-terminating reads')
            break
        cls, v = read_with_budget(t)
        ctx.count(t)
        counts[spec['cls']] = counts.get(spec['cls'], 0) + 1
        _generic(ctx, t, cls, v, spec)
        if cls in spec['allowed']:
            continue
        if spec['dev'] and cls in KNOWN_DEV.get(spec['dev'], ()):
            ctx.violation(spec['dev'], 'Read(%r) raised %s (spec allows %s)' % (t, cls, spec['allowed']),
                          {'kind': 'text', 'text': t})
            continue
        ctx.violation('read:%r' % t, 'Read(%r) -> %s; the specification allows %s (reads it as %s%s)'
                      % (t, cls, sorted(spec['allowed']), spec['cls'],
                         ', furthest failure at offset %d' % spec['far'] if spec['cls'] == 'RINGSyntaxError' else ''),
                      {'kind': 'text', 'text': t})
    ctx.extra['corpus'] = {'base': len(base), 'texts': len(corpus), 'spec_read': len(gen) + len(DEV_INSTANCES),
                           'generic_only': len(extra), 'spec_outcomes': counts}
    ctx.sample({'valid_text': base[0]})
    ctx.sample({'mutant': gen[len(gen) // 2], 'spec': specs[len(gen) // 2 + 1]['cls']})
    ctx.exhaustive = False
    ctx.assumptions += [
        'the corpus is bounded-exhaustive in the mutations of its base texts, not in all strings',
        'texts with non-ASCII characters are checked against the generic clauses only (the TLA+ '
        'lexer is ASCII); duplicate labels and atom-type modification are left open by the statement',
        'non-termination = no result within 4 s AND a budget of 3e6 traced line events']


def _vin(ctx, data):
    import json
    import tempfile
    from ..common import jsonable
    fd, vin = tempfile.mkstemp(suffix='.json', prefix='vin_', dir=ctx.scratch)
    with os.fdopen(fd, 'w') as f:
        json.dump(jsonable(data), f)
    return vin


def _hangs(ctx):
    return sum(1 for k, _, _ in ctx.violations if k.startswith('hang:'))


def _generic(ctx, t, cls, v, spec):
    if cls == 'DOES-NOT-TERMINATE':
        ctx.violation('hang:%r' % t, 'Read(%r) does not terminate' % t, {'kind': 'text', 'text': t})
        return
    if cls not in ALLOWED_GENERIC:
        if spec is not None:
            return          # reported with the specification's verdict below
        key = 'dev:lowercase-symbol' if cls == 'AttributeError' and "ExpandQuery" in str(v) else \
            ('dev:label-AtomLabel' if cls == 'TypeError' and 'RINGToken' in str(v) else
             ('dev:reactant-group' if cls == 'IndexError' else 'escape:%s:%r' % (cls, t)))
        ctx.violation(key, 'Read(%r) escaped with %s: %s' % (t, cls, str(v)[:80]), {'kind': 'text', 'text': t})
        return
    if cls == 'RINGSyntaxError' and not inside(t, v):
        ctx.violation('position:%r' % t, 'Read(%r): syntax error reported at line %d column %d, outside the text'
                      % (t, v.lineno, v.colno), {'kind': 'text', 'text': t})


def replay(ctx, rep):
    t = rep['case']['text']
    cls, v = read_with_budget(t)
    _generic(ctx, t, cls, v, None)
    outs = ctx.tlc_shards('MC_Ring', 'MC_Ring.cfg', nshards=1, env={'VIN': _vin(ctx, {'texts': [codes(t)]})})
    spec = (outs[0]['res'][0] if isinstance(outs[0]['res'], list) else outs[0]['res']['1'])
    if cls not in spec['allowed']:
        ctx.violation('read:%r' % t, 'Read(%r) -> %s; spec allows %s' % (t, cls, spec['allowed']), rep['case'])
