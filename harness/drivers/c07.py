"""C07 - dimensional results are the non-dimensional ones times R (and T).

Pass A: MC_Dimensional (symbolic magnitudes: X(T,u) = ND * [T] * R_u; action
        property RatioLaw, invariant Structure) explores every property x unit.
Pass B: sessions on shipped libraries: molecules are decomposed *immediately
        before* Estimate; every energy unit string of the gas-constant table x
        properties x elemental reference on/off, plus group correlations of
        BensonGA; Trace_Estimate decides the outcome class and emits the form
        of every value (which non-dimensional property, times T or not, which
        gas-constant entry, element counts incl. hydrogens for the elemental
        reference); the harness evaluates the form from the implementation's own
        non-dimensional getter, pmutt's R table and elemental entropies.
"""
import random

from .. import corrlib as cl
from .. import estlib as el
from ..common import call, MachineryError
from pmutt import constants as pc

MOLS = {
    # bracket atoms carrying their hydrogens explicitly come first: the elemental-entropy flag must count
    # every hydrogen of the formula however it was written
    'BensonGA': ['CC[C@H](C)O', '[CH3][CH2]CCCC', 'C[CH2]', 'CC', 'CCC', 'CCCCCC', 'C=C', 'CC=O', 'CO', 'CCO', 'c1ccccc1', 'C1CCCCC1',
                 'CC(C)C', 'C#C', 'OCCO', 'CC(=O)O', '[CH3]', 'C=CC=C', 'COC',
                 'CC(C)(C)C', 'CCN', 'Cc1ccccc1'],
    'GRWSurface2018': ['C([Pt])C', 'C(=O)([Pt])O', 'C([Pt])([Pt])C', 'OC([Pt])C', 'C(C)([Pt])([Pt])[Pt]',
                       'CC([Pt])O', 'OCC([Pt])O', 'C([Pt])([Pt])=O', 'CC', 'CO'],
    'SalciccioliGA2012': ['C([Pt])C', 'C([Pt])([Pt])C', 'OC([Pt])C', 'CC([Pt])O', 'C(=O)([Pt])C',
                          'OCC([Pt])O', 'C([Pt])([Pt])O'],
    'XieGA2022': ['C([Ru])C', 'C(=O)([Ru])O', 'C([Ru])([Ru])C', 'OC([Ru])C', 'CC([Ru])O'],
    'GRWAqueous2018': ['C([Pt])C', 'C(=O)([Pt])O', 'OC([Pt])C', 'CC([Pt])O'],
}
DIM = {'H': 'get_H', 'S': 'get_S', 'Cp': 'get_Cp', 'G': 'get_G'}


def _dimcall(obj, p, T, u, sel):
    if p == 'H':
        return call(obj.get_H, T, u)
    if p == 'Cp':
        return call(obj.get_Cp, T, u + '/K')
    if p == 'S':
        return call(obj.get_S, T, u + '/K', S_elements=sel) if sel is not None else call(obj.get_S, T, u + '/K')
    return call(obj.get_G, T, u, S_elements=sel) if sel is not None else call(obj.get_G, T, u)


def _ndcall(obj, p, T, sel):
    if p in ('S', 'G') and sel is not None:
        return call(getattr(obj, cl.GETTERS[p]), T, S_elements=sel)
    return call(getattr(obj, cl.GETTERS[p]), T)


def _session(ctx, name, smiles_list, units, rng_, report):
    kind, lib, _ = call(el.GroupLibrary.Load, name)
    if kind == 'error':
        report('load:' + name, 'library %s does not load: %r' % (name, lib))
        return
    items = []          # (label, object, mapping or None, atoms)
    for smi in smiles_list:
        k1, desc, _ = call(lib.GetDescriptors, smi)
        if k1 == 'error':
            continue            # outside this scheme's vocabulary (C02's business)
        k2, est, _ = call(lib.Estimate, desc, 'thermochem')     # immediately after decomposing
        if k2 == 'error':
            continue
        items.append((smi, est, [(str(g), c) for g, c in desc.items()], el.formula_counts(smi)))
    used = sorted(set(g for it in items for g, _ in it[2]))
    probes = [298.15, 400.0, 650.0, 1000.0]
    temps = el.temps_of(lib, used, probes)
    rank = {t: i + 1 for i, t in enumerate(temps)}
    evs = [{'op': 'lib', 'groups': el.group_facts(lib, used, rank)}]
    side = [None]
    for smi, est, m, atoms in items:
        r = est.get_range()
        evs.append({'op': 'estimate', 'x': [[g, el.qcount(c)] for g, c in m], 'basis': [], 'M': [],
                    'obs': {'ok': True, 'rng': [rank[float(r[0])], rank[float(r[1])]] if r is not None else []}})
        side.append(None)
        Ts = [T for T in probes if r is None or r[0] <= T <= r[1]][:3]
        for p in ('H', 'S', 'Cp', 'G'):
            for T in Ts:
                for u in units:
                    for sel in ((None, True, False) if p in ('S', 'G') else (None,)):
                        if sel is not None and u != units[0] and rng_.random() < .7:
                            continue
                        kk, v, warns = _dimcall(est, p, T, u, sel)
                        o, val = cl.classify(kk, v, warns)
                        evs.append({'op': 'evaldim', 'prop': p, 't': rank[T], 'sel': bool(sel),
                                    'atoms': atoms if sel else [], 'obs': o})
                        side.append((smi, est, p, T, u, sel, val))
    out, rr = ctx.tlc_json('Trace_Estimate', 'Trace_Estimate.cfg', {'traces': [evs]})
    if not out.get('done'):
        raise MachineryError('Trace_Estimate did not finish')
    ctx.traces += 1
    bad = set(p for _, p in out['bad'])
    for i, (ev, sd, how) in enumerate(zip(evs, side, out['how']), 1):
        if sd is None:
            continue
        smi, est, p, T, u, sel, val = sd
        ctx.count('%s|%s|%s|%s' % (name, smi, p, u))
        key = '%s:%s.%s(%g, %r, S_elements=%r)' % (name, smi, DIM[p], T, u, sel)
        if i in bad:
            report(key, '%s -> %s; spec expects %s' % (key, ev['obs'], how.get('k')))
            continue
        if how.get('k') not in ('value', 'warn+value') or val is None:
            continue
        f = how['dim']
        kk, nd, _ = _ndcall(est, f['nd'], T, None)
        if kk == 'error':
            continue
        nd = float(nd)
        if how['elems']:
            ssum = sum(n * pc.S_elements[z] for z, n in how['elems'])
            # relative to the elements: S/R lowered by the sum; G/RT raised by it
            nd = nd - ssum if f['nd'] == 'S' else nd + ssum
            k3, nd_sel, _ = _ndcall(est, f['nd'], T, True)
            if k3 == 'error' or abs(float(nd_sel) - nd) > 1e-9 * max(1.0, abs(nd)):
                report(key + ':nd', '%s: %s(%g, S_elements=True) = %r; expected %r '
                       '(elemental entropies over %s)' % (name, cl.GETTERS[f['nd']], T, nd_sel, nd,
                                                          sorted(map(tuple, how['elems']))))
                continue
        R = pc.R(u + '/K')
        exp = nd * R * (T if f['mulT'] else 1.0)
        if abs(val - exp) > 1e-10 * max(1.0, abs(exp)):
            report(key, '%s = %r; spec expects %s * %sR(%r) = %r'
                   % (key, val, cl.GETTERS[f['nd']], 'T * ' if f['mulT'] else '', u + '/K', exp))
    # G = H - T*S in every unit, and unknown unit strings are refused
    for smi, est, m, atoms in items[:6]:
        for u in units:
            T = 500.0
            kh, h, _ = call(est.get_H, T, u)
            ks, s, _ = call(est.get_S, T, u + '/K')
            kg, g, _ = call(est.get_G, T, u)
            ctx.count()
            if 'error' in (kh, ks, kg):
                continue
            if abs(g - (h - T * s)) > 1e-9 * max(1.0, abs(g)):
                report('%s:%s:G=H-TS:%s' % (name, smi, u),
                       '%s: %s: G(%g,%r)=%r but H - T*S = %r' % (name, smi, T, u, g, h - T * s))
        kk, v, _ = call(est.get_H, 500.0, 'furlong/mol')
        if kk != 'error':
            report('%s:%s:unknown-unit' % (name, smi), 'unknown unit string accepted: %r' % v)
    return lib


def _groups(ctx, units, report):
    kind, lib, _ = call(el.GroupLibrary.Load, 'BensonGA')
    n = 0
    for g in lib:
        c = lib[g].get('thermochem')
        if c is None:
            continue
        # (groups with only part of the data too: every property they can give obeys the same relation)
        n += 1
        if n % 5:
            continue
        for T in (298.15, 700.0):
            for u in units:
                vals = {}
                for p in ('H', 'S', 'Cp', 'G'):
                    kk, v, w = _dimcall(c, p, T, u, None)
                    kn, nd, _ = _ndcall(c, p, T, None)
                    ctx.count()
                    if kk == 'error' or kn == 'error':
                        continue
                    exp = float(nd) * pc.R(u + '/K') * (T if p in ('H', 'G') else 1.0)
                    vals[p] = v
                    if abs(v - exp) > 1e-10 * max(1.0, abs(exp)):
                        report('BensonGA:%s.%s(%g,%r)' % (g, DIM[p], T, u),
                               'group %s: %s(%g, %r) = %r; expected %r' % (g, DIM[p], T, u, v, exp))


def run(ctx):
    thorough = ctx.tier == 'thorough'
    r = ctx.tlc('MC_Dimensional', 'MC_Dimensional.cfg', workers=4)
    ctx.log('MC_Dimensional: %d states, %d transitions' % (r.distinct, r.generated))

    def report(key, what):
        ctx.violation(key, what, {'kind': 'dim', 'key': key})
    rng_ = random.Random(ctx.seed)
    units = el.ENERGY_UNITS if thorough else el.ENERGY_UNITS[::3] + ['kcal/mol', 'eV']
    libs = list(MOLS) if thorough else ['BensonGA', 'GRWSurface2018', 'XieGA2022']
    for name in libs:
        mols = MOLS[name] if thorough else MOLS[name][:9]
        _session(ctx, name, mols, el.ENERGY_UNITS if name == 'BensonGA' else units, rng_, report)
    _groups(ctx, units, report)
    ctx.sample({'library': 'BensonGA', 'molecule': 'CCO', 'units': el.ENERGY_UNITS[:4]})
    ctx.exhaustive = True
    ctx.assumptions += [
        "pmutt's gas-constant table and elemental entropies are observations",
        'element counts come from the molecular formula computed by RDKit '
        '(CalcMolFormula), not from the code path the implementation uses',
        'molecules are decomposed immediately before Estimate (statement)']


def replay(ctx, rep):
    run(ctx)
