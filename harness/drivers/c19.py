"""C19 - group identity is the centre plus the multiset of peripherals.

Pass A: TLC explores MC_GroupName (dictionary state machine over every
        spelling of every small multiset; invariants Agree / PlainInterop /
        ReadOnly; static theorems ParseRender, CanonRoundTrip, CanonInjective)
        and exports every spelling with the identity the spec gives it.
Run   : every exported spelling is replayed on pgradd's Group / dict /
        GroupLibrary (spec -> code).
Pass B: seeded random operation histories on the real objects are logged and
        validated by Trace_GroupName (code -> spec).
"""
import os
import random

from ..common import use_repo, call, codes, uncodes

use_repo()
from pgradd.GroupAdd.Group import Group, Descriptor          # noqa: E402
from pgradd.GroupAdd.Library import GroupLibrary             # noqa: E402
from pgradd.Error import GroupSyntaxError                    # noqa: E402


class _Scheme(object):
    """stands for some scheme object other than None"""


_SCHEME = _Scheme()


def _ref_obj(ref):
    """Build the python object a ref denotes (may raise)."""
    if ref['kind'] == 'parse':
        return Group.parse(None, uncodes(ref['text']))
    if ref['kind'] == 'ctor':
        return Group(None, uncodes(ref['csg']),
                     [uncodes(p) for p in ref['psgs']])
    return uncodes(ref['text'])


def _errcls(e):
    return type(e).__name__


class Table(object):
    """The implementation-side dictionary: a plain dict and a GroupLibrary
    kept in lock step (both are keyed the way library contents are)."""

    def __init__(self):
        self.d = {}
        self.lib = GroupLibrary(None, {})

    def insert(self, ref, v):
        kind, g, _ = call(_ref_obj, ref)
        if kind == 'error':
            return {'kind': 'error', 'cls': _errcls(g)}
        self.d[g] = v
        self.lib.contents[g] = {'v': v}
        return {'kind': 'ok'}

    def lookup(self, ref):
        kind, g, _ = call(_ref_obj, ref)
        if kind == 'error':
            return {'kind': 'error', 'cls': _errcls(g)}
        in_d = g in self.d
        in_l = g in self.lib
        got = self.lib[g]
        if in_d != in_l or bool(got) != in_l:
            return {'kind': 'inconsistent'}
        if in_d:
            if self.d[g] != got['v']:
                return {'kind': 'inconsistent'}
            return {'kind': 'hit', 'v': self.d[g]}
        if self.d.get(g, None) is not None:
            return {'kind': 'inconsistent'}
        return {'kind': 'miss'}

    def compare(self, r1, r2):
        k1, a, _ = call(_ref_obj, r1)
        k2, b, _ = call(_ref_obj, r2)
        if k1 == 'error' or k2 == 'error':
            return {'kind': 'error', 'cls': 'GroupSyntaxError'}
        (_, eq, _), (_, ne, _), (_, req, _) = (
            call(lambda: a == b), call(lambda: a != b), call(lambda: b == a))
        return {'kind': 'cmp', 'eq': bool(eq), 'ne': bool(ne),
                'req': bool(req), 'hasheq': hash(a) == hash(b)}

    def state(self):
        out = []
        for k, v in self.d.items():
            out.append([codes(str(k)), v])
        return out


def _replay_spellings(ctx, sps):
    """spec -> code: each exported spelling through parse / ctor / str."""
    by_canon = {}
    for sp in sps:
        text, canon = uncodes(sp['text']), uncodes(sp['canon'])
        csg = uncodes(sp['csg'])
        psgs = [uncodes(p) for p in sp['psgs']]
        ctx.count(text)
        case = {'text': text, 'csg': csg, 'psgs': psgs, 'canon': canon}
        kind, g, _ = call(Group.parse, None, text)
        if kind == 'error':
            ctx.violation('parse-raises:' + text,
                          'Group.parse(%r) raised %s' % (text, _errcls(g)), case)
            continue
        kind2, h, _ = call(Group, None, csg, list(psgs))
        # "psgs : iterable of strs": a tuple, a generator, an iterator denote the same multiset as the list
        others = [call(Group, None, csg, tuple(psgs)), call(Group, None, csg, (p for p in psgs)),
                  call(Group, None, csg, iter(list(reversed(psgs))))]
        # the scheme a group object belongs to is not part of its identity
        k3, hs_, _ = call(Group, _SCHEME, csg, list(psgs))
        checks = [
            ('other-scheme', k3 == 'value' and hs_ == g and g == hs_ and hash(hs_) == hash(g)
             and {hs_: 1}.get(g) == 1 and {g: 1}.get(hs_) == 1),
            ('ctor-iterable', kind2 == 'value' and all(k_ == 'value' and o_ == h and hash(o_) == hash(h) and str(o_) == canon
                                                       for k_, o_, _ in others)),
            ('name', str(g) == canon),
            ('csg', g.csg == csg),
            ('bag', sorted(g.psgs) == sorted(psgs)),
            ('ctor-name', kind2 == 'value' and h.name == canon),
            ('eq-ctor', kind2 == 'value' and g == h and h == g and not (g != h)),
            ('hash-ctor', kind2 == 'value' and hash(g) == hash(h)),
            ('eq-str', g == canon and canon == g and hash(g) == hash(canon)),
            ('dict-str', {g: 1}.get(canon) == 1 and {canon: 1}.get(g) == 1),
            ('reparse', str(Group.parse(None, str(g))) == canon),
        ]
        for nm, ok in checks:
            if not ok:
                ctx.violation('spelling:%s:%s' % (nm, text),
                              'spelling %r (canonical %r): check %s failed'
                              % (text, canon, nm), case)
        by_canon.setdefault(canon, []).append(g)
    # distinct canonical names must be unequal groups (sample pairs)
    keys = sorted(by_canon)
    rng = random.Random(ctx.seed)
    pairs = [(a, b) for a in keys for b in keys if a < b]
    if len(pairs) > 4000:
        pairs = rng.sample(pairs, 4000)
    for a, b in pairs:
        ga, gb = by_canon[a][0], by_canon[b][-1]
        ctx.count()
        if ga == gb or not (ga != gb) or {ga: 1}.get(gb) is not None:
            ctx.violation('distinct-equal:%s|%s' % (a, b),
                          'groups %r and %r compare equal' % (a, b),
                          {'a': a, 'b': b})


PERIPH = ['C', 'H', 'O', 'C[d]', 'C[.]', 'CO', 'Pt', 'N[A]', 'C[t]', 'C[B]',
          'O[d]', 'C[db]', 'Ru', 'N', 'C[a]']
CENTRES = ['C', 'CO', 'O', 'C[d]', 'Pt', 'N[A]']


def _rand_spelling(rng, maxn):
    """A random spelling of a random multiset plus its meaning."""
    n = rng.randint(0, maxn)
    names = rng.sample(PERIPH, rng.randint(1, min(4, len(PERIPH))))
    psgs = [rng.choice(names) for _ in range(n)]
    rng.shuffle(psgs)
    csg = rng.choice(CENTRES)
    text = csg
    j = 0
    while j < len(psgs):
        k = 1
        while j + k < len(psgs) and psgs[j + k] == psgs[j] and rng.random() < .7:
            k += 1
        if k == 1 and rng.random() < .15:
            text += '(%s)1' % psgs[j]
        elif k == 1:
            text += '(%s)' % psgs[j]
        else:
            text += '(%s)%d' % (psgs[j], k)
        j += k
    return csg, psgs, text


def _canon_py(csg, psgs):
    # only used to build *plain string* refs that are likely to hit
    from collections import Counter
    c = Counter(psgs)
    return csg + ''.join('(%s)%s' % (n, '' if c[n] == 1 else c[n])
                         for n in sorted(c))


def _rand_ref(rng, pool, maxn):
    if pool and rng.random() < .6:
        csg, psgs = rng.choice(pool)
        psgs = list(psgs)
        rng.shuffle(psgs)
        # respell
        text = csg
        j = 0
        psgs_sorted = psgs if rng.random() < .5 else sorted(psgs)
        while j < len(psgs_sorted):
            k = 1
            while (j + k < len(psgs_sorted)
                   and psgs_sorted[j + k] == psgs_sorted[j]
                   and rng.random() < .7):
                k += 1
            text += '(%s)%s' % (psgs_sorted[j], '' if k == 1 else k)
            j += k
        psgs = psgs_sorted
    else:
        csg, psgs, text = _rand_spelling(rng, maxn)
        pool.append((csg, tuple(psgs)))
    r = rng.random()
    if r < .45:
        return {'kind': 'parse', 'text': codes(text)}
    if r < .8:
        return {'kind': 'ctor', 'csg': codes(csg),
                'psgs': [codes(p) for p in psgs]}
    if r < .9:
        return {'kind': 'plain', 'text': codes(_canon_py(csg, psgs))}
    if r < .95:
        return {'kind': 'plain', 'text': codes(text)}
    # malformed: number first (the one malformed form the statement fixes)
    return {'kind': 'parse', 'text': codes(csg + '(%d)' % rng.randint(1, 9)
                                           + text[len(csg):])}


def _record_trace(rng, length, maxn):
    t = Table()
    pool = []
    evs = []
    for _ in range(length):
        r = rng.random()
        if r < .35:
            ref = _rand_ref(rng, pool, maxn)
            if ref['kind'] == 'plain':
                ref = {'kind': 'parse', 'text': ref['text']}
            v = rng.randint(1, 9)
            ev = {'op': 'insert', 'ref': ref, 'v': v, 'obs': t.insert(ref, v)}
        elif r < .7:
            ref = _rand_ref(rng, pool, maxn)
            ev = {'op': 'lookup', 'ref': ref, 'obs': t.lookup(ref)}
        else:
            r1, r2 = _rand_ref(rng, pool, maxn), _rand_ref(rng, pool, maxn)
            ev = {'op': 'compare', 'ref': r1, 'ref2': r2,
                  'obs': t.compare(r1, r2)}
        ev['state'] = t.state()
        evs.append(ev)
    return evs


def _describe(ev):
    def rd(r):
        if r['kind'] == 'ctor':
            return 'Group(%r,%r)' % (uncodes(r['csg']),
                                     [uncodes(p) for p in r['psgs']])
        return '%s(%r)' % (r['kind'], uncodes(r['text']))
    s = ev['op'] + ' ' + rd(ev['ref'])
    if 'ref2' in ev:
        s += ' vs ' + rd(ev['ref2'])
    return s + ' -> ' + str(ev['obs'])


def _validate(ctx, traces, label):
    out, r = ctx.tlc_json('Trace_GroupName', 'Trace_GroupName.cfg',
                          {'traces': traces})
    if not out.get('done'):
        raise RuntimeError('trace validation did not finish')
    ctx.traces += len(traces)
    for b in out['bad']:
        tr = traces[b['tid'] - 1]
        ev = tr[b['i'] - 1]
        ctx.violation('trace:' + _describe(ev),
                      '%s: event %d of trace %d rejected by Trace_GroupName: '
                      '%s ; spec expects %s'
                      % (label, b['i'], b['tid'], _describe(ev), b['exp']),
                      {'trace': tr[:b['i']], 'expected': b})
    return out


def run(ctx):
    thorough = ctx.tier == 'thorough'
    # ---- Pass A
    cfg = 'MC_GroupName_t.cfg' if thorough else 'MC_GroupName_q.cfg'
    fd_out = os.path.join(ctx.scratch, 'gn_export.json')
    r = ctx.tlc('MC_GroupName', cfg, env={'VOUT': fd_out}, workers=16,
                timeout=3000)
    import json
    with open(fd_out) as f:
        sps = json.load(f)['spellings']
    ctx.extra['mc'] = {'cfg': cfg, 'distinct_states': r.distinct,
                       'transitions': r.generated,
                       'spellings_exported': len(sps), 'wall_s': round(r.wall, 1)}
    ctx.log('MC_GroupName: %d states, %d transitions, %d spellings'
            % (r.distinct, r.generated, len(sps)))
    ctx.sample({'spelling': uncodes(sps[len(sps) // 2]['text']),
                'canonical': uncodes(sps[len(sps) // 2]['canon'])})
    # ---- spec -> code
    _replay_spellings(ctx, sps)
    if thorough:
        # a second small world: four names (C O CO C[d]), shorter spellings
        r2 = ctx.tlc('MC_GroupName', 'MC_GroupName_t2.cfg', env={'VOUT': fd_out}, workers=16, timeout=3000)
        with open(fd_out) as f:
            sps2 = json.load(f)['spellings']
        ctx.extra['mc2'] = {'cfg': 'MC_GroupName_t2.cfg', 'distinct_states': r2.distinct, 'transitions': r2.generated,
                            'spellings_exported': len(sps2)}
        _replay_spellings(ctx, sps2)
    # ---- Pass B: code -> spec
    rng = random.Random(ctx.seed)
    ntr, ln, maxn = (400, 40, 12) if thorough else (60, 30, 8)
    traces = [_record_trace(rng, ln, maxn) for _ in range(ntr)]
    for tr in traces:
        for ev in tr:
            ctx.count(_describe(ev))
    ctx.sample({'trace_prefix': [_describe(e) for e in traces[0][:4]]})
    out = _validate(ctx, traces, 'random history')
    ctx.extra['trace_events'] = out['events']
    ctx.exhaustive = True
    ctx.assumptions += [
        'TLC 1.8 + CommunityModules Json/IOUtils',
        'malformed names other than number-first are outside the statement '
        'and are not generated',
        'exhaustive part bounded by the constants of ' + cfg]


def replay(ctx, rep):
    case = rep['case']
    if 'trace' in case:
        tr = case['trace']
        t = Table()
        evs = []
        for ev in tr:
            if ev['op'] == 'insert':
                obs = t.insert(ev['ref'], ev['v'])
            elif ev['op'] == 'lookup':
                obs = t.lookup(ev['ref'])
            else:
                obs = t.compare(ev['ref'], ev['ref2'])
            e2 = dict(ev)
            e2['obs'] = obs
            e2['state'] = t.state()
            evs.append(e2)
        _validate(ctx, [evs], 'replay')
    elif 'text' in case:
        _replay_spellings(ctx, [{'text': codes(case['text']),
                                 'canon': codes(case['canon']),
                                 'csg': codes(case['csg']),
                                 'psgs': [codes(p) for p in case['psgs']]}])
