"""C15 - results do not depend on what the library object did before.

Pass A: TLC explores Lifecycle.tla (handles x libraries x molecules; Load,
        Update, Decompose, Estimate, Eval, EvalGroup to depth 6): on the ideal
        design HistoryFree and ReadOnly hold; on the faithful variant (the code's
        hidden "last molecule decomposed") TLC produces the shortest history on
        which a result depends on the past.  That counterexample is parsed and
        replayed on the real code.
Pass B: systematic and seeded random histories (lengths 2..40) are executed on
        real library objects in ONE process; every return value is logged as
        repr, every library is fingerprinted before/after each read-only call;
        Trace_Lifecycle turns every event into the query key of the ideal design
        (and the key the hidden state would give); the harness compares each
        observed value with the answer of a single-operation run in a fresh
        process for that key (bit-exact).
"""
import hashlib
import json
import os
import random
import re
import shutil
import subprocess
import sys
import tempfile
from concurrent.futures import ThreadPoolExecutor

from ..common import use_repo, call, MachineryError, REPO, VERIF

use_repo()
import pgradd.ThermoChem                                            # noqa: E402,F401
from pgradd.GroupAdd.Library import GroupLibrary                    # noqa: E402

TEMPS = {1: 298.15, 2: 500.0, 3: 900.0}
MOLS = {'BensonGA': ['CC', 'CCCCCC', 'CCO', 'C=CC', 'c1ccccc1', 'C/C=C\\C', 'C/C=C/C', 'CC=CC', 'OCC', 'C(C)O'],
        'GRWSurface2018': ['C([Pt])C', 'CC', 'OC([Pt])C'],
        'SalciccioliGA2012': ['C([Pt])C', 'CC([Pt])O'],
        'X1': ['C([Ru])C', 'CC', 'C([Ru])([Ru])C'],
        'GuSolventGA2017Aq': ['C', 'CC', 'CO'], 'GuSolventGA2017Vac': ['C', 'CC', 'CO']}
GROUPS = {'BensonGA': ['C(C)(H)3', 'C(C)2(H)2'], 'GRWSurface2018': ['C(C)(H)3'],
          'SalciccioliGA2012': ['C(C)(H)3'], 'X1': ['C(C)(H)3', 'Zz(Q)2'], 'X2': ['C(C)(H)3', 'Zz(Q)2'],
          'X3': ['Zz(Q)2', 'Yy(Q)'], 'GuSolventGA2017Aq': ['C(C)(H)3'], 'GuSolventGA2017Vac': ['C(C)(H)3']}
GET = {'Cp': 'get_CpoR', 'H': 'get_HoRT', 'S': 'get_SoR', 'G': 'get_GoRT',
       'HSE': 'get_HoRT_SE', 'SSE': 'get_SoR_SE', 'CpSE': 'get_CpoR_SE'}

PURE = r'''
import sys, json, io, contextlib, hashlib
sys.path.insert(0, sys.argv[1])
key = json.loads(sys.argv[2]); paths = json.loads(sys.argv[3])
buf = io.StringIO()
def digest(lib):
    h = hashlib.sha256()
    for g in sorted(lib, key=str):
        c = lib[g].get('thermochem')
        h.update(repr((str(g), None if c is None else (repr(c.T_ref), repr(c.ND_H_ref), repr(c.ND_S_ref),
                 sorted((repr(float(t)), repr(float(v))) for t, v in (c.ND_Cp_data or {}).items()), repr(c.get_range())))).encode())
    h.update(repr(sorted((str(k), [(float(a), str(b)) for a, b in v]) for k, v in lib.scheme.remaps.items())).encode())
    uq = lib.uq_contents
    h.update(repr((bool(uq), len(uq['descriptors']) if uq else 0)).encode())
    return h.hexdigest()[:16]
def res(f):
    try:
        v = f()
        return 'value:' + repr(v if not hasattr(v, 'items') else sorted((str(k), float(x)) for k, x in v.items()))
    except Exception as e:
        return 'error:' + type(e).__name__
with contextlib.redirect_stdout(buf):
    import warnings; warnings.simplefilter('ignore')
    import pgradd.ThermoChem
    from pgradd.GroupAdd.Library import GroupLibrary
    def one(s):
        if s.startswith('~'):        # a new, empty library with that library's scheme
            from pgradd.GroupAdd.Scheme import GroupAdditivityScheme
            return GroupLibrary(GroupAdditivityScheme.Load(s[1:]))
        return GroupLibrary.Load(paths.get(s, s))
    def load(srcs):
        lib = one(srcs[0])
        ow = False
        for s in srcs[1:]:
            if s == '!':
                ow = True
                continue
            lib.Update(one(s), overwrite=ow)
            ow = False
        return lib
    kind = key[0]
    GET = {'Cp': 'get_CpoR', 'H': 'get_HoRT', 'S': 'get_SoR', 'G': 'get_GoRT',
       'HSE': 'get_HoRT_SE', 'SSE': 'get_SoR_SE', 'CpSE': 'get_CpoR_SE'}
    if kind == 'contents':
        out = res(lambda: digest(load(key[1])))
    elif kind == 'descriptors':
        out = res(lambda: load([key[1]]).GetDescriptors(key[2]))
    elif kind == 'estimate':
        def f():
            lib = load(key[1]); d = lib.GetDescriptors(key[3]); lib.Estimate(d, 'thermochem'); return 'estimate'
        out = res(f)
    elif kind == 'eval':
        def f():
            lib = load(key[1]); d = lib.GetDescriptors(key[3])
            selmol = key[6]
            if selmol not in ('-', key[3]):
                # the recorded deviation: the estimate takes the molecule the library saw last
                if selmol == 'none':
                    lib = load(key[1])
                else:
                    lib.GetDescriptors(selmol)
            est = lib.Estimate(d, 'thermochem')
            T = float(key[5])
            if key[4] in ('S', 'G') and selmol != '-':
                return getattr(est, GET[key[4]])(T, S_elements=True)
            return getattr(est, GET[key[4]])(T)
        out = res(f)
    elif kind == 'group':
        out = res(lambda: getattr(load(key[1])[key[2]]['thermochem'], GET[key[3]])(float(key[4])))
    else:
        out = 'error:badkey'
print(out)
'''


def digest(lib):
    h = hashlib.sha256()
    for g in sorted(lib, key=str):
        c = lib[g].get('thermochem')
        h.update(repr((str(g), None if c is None else (
            repr(c.T_ref), repr(c.ND_H_ref), repr(c.ND_S_ref),
            sorted((repr(float(t)), repr(float(v))) for t, v in (c.ND_Cp_data or {}).items()),
            repr(c.get_range())))).encode())
    h.update(repr(sorted((str(k), [(float(a), str(b)) for a, b in v]) for k, v in lib.scheme.remaps.items())).encode())
    uq = lib.uq_contents
    h.update(repr((bool(uq), len(uq['descriptors']) if uq else 0)).encode())
    return h.hexdigest()[:16]


def res(kind, v):
    if kind == 'error':
        return 'error:' + type(v).__name__
    if hasattr(v, 'items'):
        return 'value:' + repr(sorted((str(k), float(x)) for k, x in v.items()))
    return 'value:' + repr(v)


class World(object):
    """real objects driven by a history"""

    def __init__(self, paths):
        self.paths = paths
        self.libs = {}
        self.srcs = {}
        self.decs = []
        self.ests = []

    def step(self, ev):
        op = ev['op']
        before = {h: digest(l) for h, l in self.libs.items()}
        readonly = op in ('decompose', 'estimate', 'eval', 'evalgroup')
        if op == 'load' and ev['L'].startswith('~'):
            from pgradd.GroupAdd.Scheme import GroupAdditivityScheme
            kind, lib, _ = call(lambda: GroupLibrary(GroupAdditivityScheme.Load(ev['L'][1:])))
            if kind == 'value':
                self.libs[ev['h']] = lib
                out = 'value:' + repr(digest(lib))
            else:
                out = res(kind, lib)
        elif op == 'load':
            kind, lib, _ = call(GroupLibrary.Load, self.paths.get(ev['L'], ev['L']))
            if kind == 'value':
                self.libs[ev['h']] = lib
                out = 'value:' + repr(digest(lib))
            else:
                out = res(kind, lib)
        elif op == 'update':
            kind, v, _ = call(self.libs[ev['h']].Update, self.libs[ev['h2']], ev['ow'])
            out = ('value:' + repr(digest(self.libs[ev['h']]))) if kind == 'value' else res(kind, v)
        elif op == 'decompose':
            kind, d, _ = call(self.libs[ev['h']].GetDescriptors, ev['m'])
            self.decs.append(d if kind == 'value' else None)
            out = res(kind, d)
        elif op == 'estimate':
            d = self.decs[ev['d'] - 1]
            kind, e, _ = call(self.libs[ev['h']].Estimate, d, 'thermochem')
            self.ests.append(e if kind == 'value' else None)
            out = 'value:' + repr('estimate') if kind == 'value' else res(kind, e)
        elif op == 'eval':
            e = self.ests[ev['e'] - 1]
            T = TEMPS[ev['t']]
            if e is None:
                return 'error:no-estimate', []
            if ev['sel']:
                kind, v, _ = call(getattr(e, GET[ev['p']]), T, S_elements=True)
            else:
                kind, v, _ = call(getattr(e, GET[ev['p']]), T)
            out = res(kind, v)
        else:
            kind, v, _ = call(lambda: getattr(self.libs[ev['h']][ev['g']]['thermochem'], GET[ev['p']])(TEMPS[ev['t']]))
            out = res(kind, v)
        # computing results alters no library; a merge alters its target only
        changed = [h for h in before if (readonly or (op == 'update' and h != ev['h']))
                   and digest(self.libs[h]) != before[h]]
        return out, changed


def make_history(rng_, n, libs):
    """a valid random history (every action enabled in Lifecycle.tla)"""
    evs = []
    srcs = {}
    decs = []       # (scheme, ok)
    ests = []
    for _ in range(n * 3):
        if len(evs) >= n:
            break
        r = rng_.random()
        loaded = [h for h in srcs]
        if not loaded or r < .12:
            h = rng_.choice([1, 2, 3])
            L = rng_.choice(libs)
            evs.append({'op': 'load', 'h': h, 'L': L})
            srcs[h] = [L]
        elif r < .22:
            # X2 and X3 carry different data for one group: whichever comes second must overwrite
            cands = [(a, b) for a in loaded for b in loaded
                     if a != b and srcs[a][0] in ('X1', 'X2') and srcs[b] in (['X2'], ['X3'])
                     and srcs[b][0] not in srcs[a]]
            if cands:
                a, b = rng_.choice(cands)
                ow = bool(set(srcs[a]) & {'X2', 'X3'}) or rng_.random() < .3
                evs.append({'op': 'update', 'h': a, 'h2': b, 'ow': ow})
                srcs[a] = srcs[a] + (['!'] if ow else []) + srcs[b]
        elif r < .45:
            h = rng_.choice([x for x in loaded if srcs[x][0] in MOLS] or [None])
            if h is None:
                continue
            m = rng_.choice(MOLS[srcs[h][0]])
            evs.append({'op': 'decompose', 'h': h, 'm': m})
            decs.append(srcs[h][0])
        elif r < .65:
            cands = [(h, d + 1) for h in loaded for d, sc in enumerate(decs) if sc == srcs[h][0]]
            if cands:
                h, d = rng_.choice(cands)
                evs.append({'op': 'estimate', 'h': h, 'd': d})
                ests.append(1)
        elif r < .9:
            if ests:
                pp = rng_.choice(['H', 'S', 'G', 'Cp', 'S', 'G', 'HSE', 'SSE', 'CpSE'])
                evs.append({'op': 'eval', 'e': rng_.randint(1, len(ests)), 'p': pp,
                            't': rng_.choice([1, 2, 3]),
                            'sel': pp in ('S', 'G') and rng_.random() < .5})
        else:
            h = rng_.choice(loaded)
            g = rng_.choice(GROUPS[srcs[h][0]])
            evs.append({'op': 'evalgroup', 'h': h, 'g': g, 'p': rng_.choice(['H', 'S', 'Cp']),
                        't': rng_.choice([1, 2, 3])})
    return evs


def systematic(libs):
    hs = []
    for L in libs:
        if L not in MOLS:
            continue
        m1, m2 = MOLS[L][0], MOLS[L][1]
        for sel in (False, True):
            hs.append([{'op': 'load', 'h': 1, 'L': L}, {'op': 'decompose', 'h': 1, 'm': m1},
                       {'op': 'estimate', 'h': 1, 'd': 1},
                       {'op': 'eval', 'e': 1, 'p': 'S', 't': 1, 'sel': sel},
                       {'op': 'eval', 'e': 1, 'p': 'G', 't': 2, 'sel': sel},
                       {'op': 'decompose', 'h': 1, 'm': m2},
                       {'op': 'eval', 'e': 1, 'p': 'S', 't': 1, 'sel': sel},
                       {'op': 'estimate', 'h': 1, 'd': 1},
                       {'op': 'eval', 'e': 2, 'p': 'S', 't': 1, 'sel': sel},
                       {'op': 'decompose', 'h': 1, 'm': m1},
                       {'op': 'load', 'h': 2, 'L': L}, {'op': 'estimate', 'h': 2, 'd': 2},
                       {'op': 'eval', 'e': 3, 'p': 'H', 't': 3, 'sel': False},
                       {'op': 'eval', 'e': 3, 'p': 'S', 't': 3, 'sel': sel}])
    # stereo variants of one constitution decomposed by one library object, in both orders
    if 'BensonGA' in libs:
        for order in (['C/C=C\\C', 'C/C=C/C', 'CC=CC'], ['CC=CC', 'C/C=C/C', 'C/C=C\\C']):
            h = [{'op': 'load', 'h': 1, 'L': 'BensonGA'}]
            for k, m in enumerate(order):
                h += [{'op': 'decompose', 'h': 1, 'm': m}, {'op': 'estimate', 'h': 1, 'd': k + 1},
                      {'op': 'eval', 'e': k + 1, 'p': 'H', 't': 1, 'sel': False}]
            hs.append(h)
    # a new, empty library made after another one received uncertainty data by a merge is still empty
    if 'GRWSurface2018' in libs:
        hs.append([{'op': 'load', 'h': 1, 'L': '~GRWSurface2018'}, {'op': 'load', 'h': 2, 'L': 'GRWSurface2018'},
                   {'op': 'update', 'h': 1, 'h2': 2, 'ow': False},
                   {'op': 'load', 'h': 3, 'L': '~GRWSurface2018'},
                   {'op': 'evalgroup', 'h': 1, 'g': 'C(C)(H)3', 'p': 'H', 't': 1},
                   {'op': 'load', 'h': 2, 'L': '~BensonGA'},
                   {'op': 'update', 'h': 2, 'h2': 1, 'ow': False}])
    # one species written with its atoms in different orders, decomposed by one library object
    if 'BensonGA' in libs:
        for order in (['CCO', 'OCC', 'C(C)O'], ['C(C)O', 'CCO', 'OCC']):
            h = [{'op': 'load', 'h': 1, 'L': 'BensonGA'}]
            for k, m in enumerate(order):
                h += [{'op': 'decompose', 'h': 1, 'm': m}, {'op': 'estimate', 'h': 1, 'd': k + 1},
                      {'op': 'eval', 'e': k + 1, 'p': 'H', 't': 1, 'sel': False}]
            hs.append(h)
    # standard errors of an earlier estimate after a later one was made from the same library
    for L in libs:
        if L in ('GRWSurface2018', 'GuSolventGA2017Vac') and L in MOLS:
            hs.append([{'op': 'load', 'h': 1, 'L': L}, {'op': 'decompose', 'h': 1, 'm': MOLS[L][0]},
                       {'op': 'estimate', 'h': 1, 'd': 1}, {'op': 'eval', 'e': 1, 'p': 'HSE', 't': 2, 'sel': False},
                       {'op': 'decompose', 'h': 1, 'm': MOLS[L][2]}, {'op': 'estimate', 'h': 1, 'd': 2},
                       {'op': 'eval', 'e': 1, 'p': 'HSE', 't': 2, 'sel': False},
                       {'op': 'eval', 'e': 1, 'p': 'CpSE', 't': 1, 'sel': False},
                       {'op': 'eval', 'e': 2, 'p': 'SSE', 't': 2, 'sel': False},
                       {'op': 'eval', 'e': 1, 'p': 'SSE', 't': 2, 'sel': False}])
    # one estimate asked the same thing with and without the elemental reference, in both orders
    for L in libs:
        if L not in MOLS:
            continue
        hs.append([{'op': 'load', 'h': 1, 'L': L}, {'op': 'decompose', 'h': 1, 'm': MOLS[L][1]},
                   {'op': 'estimate', 'h': 1, 'd': 1},
                   {'op': 'eval', 'e': 1, 'p': 'S', 't': 1, 'sel': False},
                   {'op': 'eval', 'e': 1, 'p': 'S', 't': 1, 'sel': True},
                   {'op': 'eval', 'e': 1, 'p': 'G', 't': 2, 'sel': True},
                   {'op': 'eval', 'e': 1, 'p': 'G', 't': 2, 'sel': False},
                   {'op': 'eval', 'e': 1, 'p': 'H', 't': 2, 'sel': False},
                   {'op': 'eval', 'e': 1, 'p': 'Cp', 't': 2, 'sel': False},
                   {'op': 'eval', 'e': 1, 'p': 'S', 't': 2, 'sel': False},
                   {'op': 'eval', 'e': 1, 'p': 'S', 't': 1, 'sel': False}])
    # merges: the source of a merge is only read, whatever is merged into the target afterwards
    if 'X3' in libs:
        for ow2 in (False, True):
            hs.append([{'op': 'load', 'h': 1, 'L': 'X1'}, {'op': 'load', 'h': 2, 'L': 'X2'},
                       {'op': 'load', 'h': 3, 'L': 'X3'},
                       {'op': 'update', 'h': 1, 'h2': 2, 'ow': ow2},
                       {'op': 'evalgroup', 'h': 1, 'g': 'Zz(Q)2', 'p': 'H', 't': 1},
                       {'op': 'update', 'h': 1, 'h2': 3, 'ow': True},
                       {'op': 'evalgroup', 'h': 1, 'g': 'Zz(Q)2', 'p': 'H', 't': 1},
                       {'op': 'evalgroup', 'h': 2, 'g': 'Zz(Q)2', 'p': 'H', 't': 1},
                       {'op': 'evalgroup', 'h': 3, 'g': 'Zz(Q)2', 'p': 'Cp', 't': 2},
                       {'op': 'decompose', 'h': 1, 'm': 'CC'}, {'op': 'estimate', 'h': 1, 'd': 1},
                       {'op': 'eval', 'e': 1, 'p': 'H', 't': 1, 'sel': False}])
        # the same source merged again after something else overwrote its data: with overwriting it wins
        # again, without it is the conflict (last step: a refused merge may leave the target partly merged)
        for ow_last in (True, False):
            hs.append([{'op': 'load', 'h': 1, 'L': 'X1'}, {'op': 'load', 'h': 2, 'L': 'X2'},
                       {'op': 'load', 'h': 3, 'L': 'X3'},
                       {'op': 'update', 'h': 1, 'h2': 2, 'ow': False},
                       {'op': 'update', 'h': 1, 'h2': 3, 'ow': True},
                       {'op': 'evalgroup', 'h': 1, 'g': 'Zz(Q)2', 'p': 'H', 't': 1},
                       {'op': 'update', 'h': 1, 'h2': 2, 'ow': ow_last}] +
                      ([{'op': 'evalgroup', 'h': 1, 'g': 'Zz(Q)2', 'p': 'H', 't': 1}] if ow_last else []))
        hs.append([{'op': 'load', 'h': 2, 'L': 'X2'}, {'op': 'load', 'h': 3, 'L': 'X3'},
                   {'op': 'update', 'h': 2, 'h2': 3, 'ow': True},
                   {'op': 'evalgroup', 'h': 2, 'g': 'Zz(Q)2', 'p': 'H', 't': 1},
                   {'op': 'evalgroup', 'h': 3, 'g': 'Zz(Q)2', 'p': 'H', 't': 1},
                   {'op': 'load', 'h': 1, 'L': 'X3'},
                   {'op': 'evalgroup', 'h': 1, 'g': 'Yy(Q)', 'p': 'S', 't': 1}])
    return hs


def parse_counterexample(out):
    """TLC error trace -> list of (action, args)"""
    acts = []
    for m in re.finditer(r'<(Load|Update|Decompose|Estimate|Eval|EvalGroup)\(([^)]*)\) line', out):
        args = [a.strip().strip('"') for a in m.group(2).split(',')]
        acts.append((m.group(1), args))
    return acts


def run(ctx):
    thorough = ctx.tier == 'thorough'
    r1 = ctx.tlc('Lifecycle', 'MC_Lifecycle_ideal.cfg', workers=1)
    ctx.log('Lifecycle (ideal): %d states, %d transitions, HistoryFree and ReadOnly hold'
            % (r1.distinct, r1.generated))
    r2 = ctx.tlc('Lifecycle', 'MC_Lifecycle_faithful.cfg', workers=1, expect_violation=True, count=False)
    cex = parse_counterexample(r2.out) if r2.violated else []
    ctx.extra['mc'] = {'ideal_states': r1.distinct, 'ideal_transitions': r1.generated,
                       'faithful_counterexample': ['%s(%s)' % (a, ','.join(x)) for a, x in cex]}
    # scratch libraries for merges: X1 = copy of XieGA2022, X2 = consistent extra data under the same scheme
    work = tempfile.mkdtemp(prefix='c15_', dir=ctx.scratch)
    x1 = os.path.join(work, 'X1')
    shutil.copytree(os.path.join(REPO, 'pgradd', 'data', 'XieGA2022'), x1)
    x2 = os.path.join(work, 'X2')
    os.makedirs(x2)
    shutil.copy(os.path.join(x1, 'scheme.yaml'), os.path.join(x2, 'scheme.yaml'))
    with open(os.path.join(x2, 'library.yaml'), 'w') as f:
        f.write('groups:\n  "Zz(Q)2":\n    thermochem:\n      T_ref: 298.15 K\n      ND_H_ref: 1.5\n'
                '      ND_S_ref: 0.0\n  "C(C)(H)3":\n    thermochem:\n      T_ref: 298.15 K\n'
                '      range: [200 K, 2000 K]\n')
    x3 = os.path.join(work, 'X3')
    os.makedirs(x3)
    shutil.copy(os.path.join(x1, 'scheme.yaml'), os.path.join(x3, 'scheme.yaml'))
    with open(os.path.join(x3, 'library.yaml'), 'w') as f:
        f.write('groups:\n  "Zz(Q)2":\n    thermochem:\n      T_ref: 298.15 K\n      ND_H_ref: 2.5\n'
                '      ND_Cp_data: [[300 K, 1.0], [500 K, 2.0]]\n      range: [200 K, 2000 K]\n'
                '  "Yy(Q)":\n    thermochem:\n      T_ref: 298.15 K\n      ND_S_ref: 4.0\n')
    paths = {'X1': os.path.join(x1, 'library.yaml'), 'X2': os.path.join(x2, 'library.yaml'),
             'X3': os.path.join(x3, 'library.yaml')}
    libs = ['BensonGA', 'GRWSurface2018', 'X1', 'X2', 'X3'] + (['SalciccioliGA2012', 'GuSolventGA2017Aq', 'GuSolventGA2017Vac'] if thorough else [])
    rng_ = random.Random(ctx.seed)
    histories = []
    # the TLC counterexample, instantiated on every library (abstract m1, m2 -> real molecules)
    for L in ['BensonGA', 'GRWSurface2018']:
        mm = {'m1': MOLS[L][0], 'm2': MOLS[L][1]}
        h = []
        for a, x in cex:
            if a == 'Load':
                h.append({'op': 'load', 'h': int(x[0]), 'L': L})
            elif a == 'Decompose':
                h.append({'op': 'decompose', 'h': int(x[0]), 'm': mm[x[1]]})
            elif a == 'Estimate':
                h.append({'op': 'estimate', 'h': int(x[0]), 'd': int(x[1])})
            elif a == 'Eval':
                h.append({'op': 'eval', 'e': int(x[0]), 'p': 'S', 't': 1, 'sel': x[3] == 'TRUE'})
        if h:
            histories.append(h)
    histories += systematic(libs)
    n, maxlen = (300, 40) if thorough else (30, 12)
    for _ in range(n):
        histories.append(make_history(rng_, rng_.randint(2, maxlen), libs))
    # run them on the real objects, all in this one process
    observed = []
    for h in histories:
        w = World(paths)
        obs = []
        for ev in h:
            obs.append(w.step(ev))
        observed.append(obs)
    out, r = ctx.tlc_json('Trace_Lifecycle', 'Trace_Lifecycle.cfg', {'traces': histories})
    if not out.get('done'):
        raise MachineryError('Trace_Lifecycle rejected a history (an action was not enabled)')
    ctx.traces += len(histories)
    keys = out['keys']
    # fresh-process answers for all distinct keys
    need = {}
    k = 0
    flat = []
    for h, obs in zip(histories, observed):
        for ev, ob in zip(h, obs):
            kk = keys[k]
            k += 1
            flat.append((h, ev, ob, kk))
            for key in (kk['key'], kk['devkey']):
                if key[0] in ('eval', 'group'):
                    key = list(key)
                    ti = 5 if key[0] == 'eval' else 4
                    key[ti] = TEMPS[key[ti]]
                need[json.dumps(key)] = None

    def pure(kjson):
        p = subprocess.run([sys.executable, '-W', 'ignore', '-c', PURE, REPO, kjson, json.dumps(paths)],
                           stdout=subprocess.PIPE, stderr=subprocess.PIPE, universal_newlines=True,
                           timeout=600, env=dict(os.environ, PYTHONHASHSEED='0'))
        lines = p.stdout.strip().splitlines()
        return lines[-1] if lines else 'error:subprocess:' + p.stderr.strip().splitlines()[-1][:80]
    with ThreadPoolExecutor(max_workers=16) as ex:
        for kj, v in zip(list(need), ex.map(pure, list(need))):
            need[kj] = v
    ctx.extra['fresh_process_runs'] = len(need)

    def look(key):
        key = list(key)
        if key[0] in ('eval', 'group'):
            ti = 5 if key[0] == 'eval' else 4
            key[ti] = TEMPS[key[ti]]
        return need[json.dumps(key)]
    nfind = 0
    for h, ev, (ob, changed), kk in flat:
        ctx.count(json.dumps(kk['key']))
        hist = ' ; '.join(_show(e) for e in h[:h.index(ev) + 1][-8:])
        if changed:
            ctx.violation('mutates:%s' % _show(ev),
                          '%s changed the data of library handle(s) %s (history: ... %s)' % (_show(ev), changed, hist),
                          {'kind': 'history', 'history': h})
        want = look(kk['key'])
        if ev['op'] == 'load' or ev['op'] == 'update':
            # contents: compare digests
            if ob != want:
                ctx.violation('contents:%s' % json.dumps(kk['key']),
                              'library contents after %s differ from a fresh process (%s vs %s); history: %s'
                              % (_show(ev), ob, want, hist), {'kind': 'history', 'history': h})
            continue
        if ob == want:
            continue
        if kk['devkey'] != kk['key'] and ob == look(kk['devkey']):
            nfind += 1
            ctx.violation('estimate-uses-last-decomposed-molecule',
                          'elemental-reference result of an estimate follows the molecule the library '
                          'decomposed last (%s -> %s, fresh process %s)' % (_show(ev), ob, want),
                          {'kind': 'history', 'history': h})
            continue
        ctx.violation('history:%s' % json.dumps(kk['key']),
                      '%s returned %s but a fresh process computes %s for the same query %s; history: %s'
                      % (_show(ev), ob, want, kk['key'], hist), {'kind': 'history', 'history': h})
    ctx.extra['histories'] = len(histories)
    ctx.extra['events'] = len(flat)
    ctx.extra['known_deviation_events'] = nfind
    ctx.sample({'history': [_show(e) for e in histories[len(histories) // 2][:8]]})
    ctx.sample({'tlc_counterexample_on_faithful_model': ctx.extra['mc']['faithful_counterexample']})
    ctx.exhaustive = False
    ctx.assumptions += [
        'fresh-process answers are computed once per distinct query key (python -c, PYTHONHASHSEED=0)',
        'estimates made before a later merge into their library are not evaluated afterwards '
        '(the statement does not say whether an estimate is a snapshot)',
        'merges that raise a conflict are not generated (the partially merged library has no single-operation equivalent)']


def _show(e):
    if e['op'] == 'load':
        return 'h%d=Load(%s)' % (e['h'], e['L'])
    if e['op'] == 'update':
        return 'h%d.Update(h%d%s)' % (e['h'], e['h2'], ', overwrite=True' if e['ow'] else '')
    if e['op'] == 'decompose':
        return 'h%d.GetDescriptors(%s)' % (e['h'], e['m'])
    if e['op'] == 'estimate':
        return 'h%d.Estimate(d%d)' % (e['h'], e['d'])
    if e['op'] == 'eval':
        return 'e%d.%s(%g%s)' % (e['e'], GET[e['p']], TEMPS[e['t']], ', S_elements=True' if e['sel'] else '')
    return 'h%d[%s].%s(%g)' % (e['h'], e['g'], GET[e['p']], TEMPS[e['t']])


def replay(ctx, rep):
    run(ctx)
