"""C01 - the estimate is the exact count-weighted sum of group contributions.

Pass A: 16 TLC processes evaluate MC_Estimate (synthetic library with complete,
        partial, reference-only, data-less and unknown groups; every ordered
        mapping up to a length bound with counts in {-1, 0, 1/2, 2}; theorems
        NoPartialSum, NamesMissing, Scaling, OrderFree, ...) and export the
        outcome and the closed-form value of every (mapping, property, T).
Run   : the synthetic library is written to disk, loaded with
        GroupLibrary.Load and every mapping replayed (spec -> code).
Pass B: sessions on the shipped libraries (unit vectors for the groups, random
        sparse/dense mappings with integer, fractional, zero and negative
        counts, mappings with descriptors without data) are validated by
        Trace_Estimate; the linear form it emits is evaluated against the
        constituents' own values (code -> spec).
"""
import os
import random
import tempfile

from .. import corrlib as cl
from .. import estlib as el
from ..common import call, MachineryError

COUNTS = [-2, -1, 0, 0.5, 1, 2, 3.25, 1, 1]


def real_sessions(ctx, libs, per_lib, unit_stride, tags, report, seed):
    rng_ = random.Random(seed)
    traces, metas = [], []
    for name in libs:
        kind, lib, _ = call(el.GroupLibrary.Load, name)     # fresh library: no decomposition yet
        if kind == 'error':
            report('missing', 'load:' + name, 'library %s does not load: %r' % (name, lib))
            continue
        groups = [str(g) for g in lib if 'thermochem' in lib[g]]
        maps = []
        for i, g in enumerate(groups):
            if i % unit_stride == 0:
                maps.append([(g, 1)])
        for _ in range(per_lib):
            k = rng_.choice([1, 2, 3, 5, 8, 15])
            gs = rng_.sample(groups, min(k, len(groups)))
            m = [(g, rng_.choice(COUNTS)) for g in gs]
            if rng_.random() < .25:
                for _ in range(rng_.randint(1, 3)):
                    m.insert(rng_.randint(0, len(m)),
                             (rng_.choice(['Zz(Q)2', 'C(Xx)4', 'NoSuchDescriptor', 'C(C)(H)3(Zz)']), 1))
            maps.append(m)
        used = sorted(set(g for m in maps for g, _ in m))
        base_probes = [298.15, 300.0, 500.0, 999.0, 1000.0, 1200.0, 1500.0, 250.0, 2000.0]
        temps = el.temps_of(lib, used, base_probes)
        rank = {t: i + 1 for i, t in enumerate(temps)}
        evs = [{'op': 'lib', 'groups': el.group_facts(lib, used, rank)}]
        side = [None]
        for m in maps:
            x = [[g, el.qcount(c)] for g, c in m]
            kind, est, _ = call(lib.Estimate, dict(m), 'thermochem')
            if kind == 'error':
                obs = {'ok': False, 'cls': type(est).__name__,
                       'groups': [str(g) for g in getattr(est, 'groups', [])], 'rng': []}
            else:
                r = est.get_range()
                obs = {'ok': True, 'rng': [rank[float(r[0])], rank[float(r[1])]] if r is not None else []}
            evs.append({'op': 'estimate', 'x': x, 'basis': [], 'M': [], 'obs': obs})
            side.append(('estimate', m, None))
            if kind == 'error':
                continue
            r = est.get_range()
            probes = set([298.15, 500.0])
            for g, _ in m:
                probes.add(float(lib[g]['thermochem'].T_ref))
            if r is not None:
                probes.update([float(r[0]), float(r[1])])
            probes = sorted(p for p in probes if p in rank and p > 0)[:5]      # (H/RT has no value at 0 K)
            for p in ('Cp', 'H', 'S', 'G'):
                for T in probes:
                    k2, v, warns = call(getattr(est, cl.GETTERS[p]), T)
                    o, val = cl.classify(k2, v, warns)
                    evs.append({'op': 'eval', 'prop': p, 't': rank[T], 'obs': o})
                    side.append(('eval', m, (p, T, val)))
        traces.append(evs)
        metas.append((name, lib, side))
    # validate
    for ti, (evs, (name, lib, side)) in enumerate(zip(traces, metas)):
        out, r = ctx.tlc_json('Trace_Estimate', 'Trace_Estimate.cfg', {'traces': [evs]})
        if not out.get('done'):
            raise MachineryError('Trace_Estimate did not finish')
        ctx.traces += 1
        bad = set(p for _, p in out['bad'])
        for i, (ev, sd, how) in enumerate(zip(evs, side, out['how']), 1):
            if sd is None:
                continue
            ctx.count()
            ms = '{' + ', '.join('%s: %s' % gc for gc in sd[1]) + '}'
            if i in bad:
                if ev['op'] == 'estimate':
                    report('range' if (ev['obs']['ok'] and how.get('ok')) else 'missing',
                           '%s:estimate:%s' % (name, ms),
                           '%s: Estimate(%s) -> %s; spec expects %s'
                           % (name, ms, ev['obs'], {k: v for k, v in how.items() if k != 'x'}))
                else:
                    report('class', '%s:%s:%s' % (name, ms, sd[2][:2]),
                           '%s: estimate(%s).%s(%g) -> %s; spec expects %s'
                           % (name, ms, cl.GETTERS[sd[2][0]], sd[2][1], ev['obs'], how.get('k')))
                continue
            if ev['op'] == 'eval' and how.get('k') in ('value', 'warn+value') and sd[2][2] is not None:
                p, T, val = sd[2]
                tot = 0.0
                okc = True
                for g, c in how['form']:
                    kk, cv, ww = call(getattr(lib[g]['thermochem'], cl.GETTERS[p]), T)
                    oc, cvf = cl.classify(kk, cv, ww)
                    if cvf is None:       # constituent itself not a plain value (C06's business)
                        okc = False
                        break
                    tot = tot + float(el.fr(c)) * cvf
                if okc and abs(val - tot) > 1e-11 * max(1.0, abs(tot)):
                    report('sum', '%s:%s:%s(%g)' % (name, ms, p, T),
                           '%s: estimate(%s).%s(%g) = %r but sum of count x group value = %r'
                           % (name, ms, cl.GETTERS[p], T, val, tot))
    return traces


def run(ctx):
    thorough = ctx.tier == 'thorough'
    cfg = 'MC_Estimate_t.cfg' if thorough else 'MC_Estimate_q.cfg'
    head, maps = el.run_mc(ctx, cfg)
    ctx.log('MC_Estimate: %d mappings' % len(maps))
    ctx.extra['mc'] = {'cfg': cfg, 'mappings': len(maps)}
    d = tempfile.mkdtemp(prefix='synth_', dir=ctx.scratch)
    kind, lib, _ = call(el.GroupLibrary.Load, el.write_synth(d, head['lib']))
    if kind == 'error':
        raise MachineryError('synthetic library does not load: %r' % lib)
    tags = ('sum', 'missing')

    def report(tag, key, what):
        if tag in tags:
            ctx.violation(key, what, {'kind': tag, 'key': key})
    n = el.replay_maps(ctx, head, maps, lib, report, with_se=False)
    ctx.evaluations += n
    for m in maps:
        ctx.distinct.add(el.show_map(m['x']))
    ctx.sample({'mapping': el.show_map(maps[len(maps) // 2]['x']),
                'spec_outcome': 'estimate' if maps[len(maps) // 2]['est']['ok'] else 'GroupMissingDataError'})
    libs = cl.LIBS if thorough else ['BensonGA', 'GRWSurface2018', 'SalciccioliGA2012']
    tr = real_sessions(ctx, libs, 300 if thorough else 40, 1 if thorough else 5, tags, report, ctx.seed)
    ctx.sample({'session': libs[0], 'events': len(tr[0]) if tr else 0})
    ctx.exhaustive = True
    ctx.assumptions += [
        'synthetic library: closed-form constituents (Correlation.tla); Cp,H at 1e-9, S,G at 2e-6',
        'shipped libraries: the estimate is compared with the sum of count x the '
        "constituent's own getter at 1e-11 relative",
        'Estimate is called on freshly loaded libraries (no prior GetDescriptors)']


def replay(ctx, rep):
    run(ctx)
