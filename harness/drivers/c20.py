"""C20 - standard errors are the scaled quadratic form of the descriptors.

Pass A: MC_Estimate (Place, Quad; theorems QuadScaling, QuadOrderFree,
        QuadNonNeg) on a synthetic library with an uncertainty basis; TLC
        exports x'Mx for every mapping and the RMSE correlation's values.
Run   : the synthetic library (with its UQ section) is written, loaded and
        every mapping's get_*_SE compared with |RMSE| * sqrt(x'Mx); mappings
        with a descriptor outside the basis must be refused (spec -> code).
Pass B: the three shipped libraries with uncertainty data: unit vectors for
        every basis entry (exhaustive), random mappings with their scaled and
        permuted copies, mappings with an out-of-basis descriptor; the matrix
        is read independently from uq.yaml (exact decimals x 1e5); Trace_Estimate
        places the counts by basis index and computes x'Mx exactly.
"""
import math
import random
import tempfile

from .. import corrlib as cl
from .. import estlib as el
from ..common import call, MachineryError

SE = {'Cp': 'get_CpoR_SE', 'H': 'get_HoRT_SE', 'S': 'get_SoR_SE'}


def _real(ctx, libs, nrand, report, thorough):
    rng_ = random.Random(ctx.seed)
    for name in libs:
        uq = el.read_uq_yaml(name)
        kind, lib, _ = call(el.GroupLibrary.Load, name)
        if kind == 'error' or uq is None:
            report('se', 'load:' + name, 'library %s: no uncertainty data / load error %r' % (name, lib))
            continue
        basis = uq['basis']
        bidx = {g: i for i, g in enumerate(basis)}
        maps = [[(g, 1)] for g in basis] + [[(g, -2)] for g in basis[::7]]
        for _ in range(nrand):
            k = rng_.choice([2, 3, 4])
            gs = rng_.sample(basis, k)
            m = [(g, rng_.choice([-2, -1, 0.5, 1, 2, 3])) for g in gs]
            f = rng_.choice([-3, -1, 2, 0.5])
            maps += [m, [(g, c * f) for g, c in m], list(reversed(m))]
            if rng_.random() < .3:
                others = [str(g) for g in lib if str(g) not in bidx and 'thermochem' in lib[g]]
                if others:
                    maps.append(m + [(rng_.choice(others), 1)])
        rmse = lib.uq_contents['RMSE'].thermochem
        r = rmse.get_range()
        probes = sorted(set([float(rmse.T_ref), 300.0, 500.0, 750.0, 1000.0] +
                            ([float(r[0]), float(r[1])] if r is not None else [])))
        used = sorted(set(g for m in maps for g, _ in m))
        temps = el.temps_of(lib, used, probes)
        rank = {t: i + 1 for i, t in enumerate(temps)}
        evs = [{'op': 'lib', 'groups': el.group_facts(lib, used, rank)}]
        side = [None]
        for m in maps:
            inb = [g for g, _ in m if g in bidx]
            red = sorted(set(inb), key=lambda g: bidx[g])
            M = [[[uq['mat'][bidx[a]][bidx[b]], 1] for b in red] for a in red]
            kind, est, _ = call(lib.Estimate, dict(m), 'thermochem')
            obs = ({'ok': False, 'cls': type(est).__name__, 'groups': [], 'rng': []}
                   if kind == 'error' else
                   {'ok': True, 'rng': ([rank[float(est.get_range()[0])], rank[float(est.get_range()[1])]]
                                        if est.get_range() is not None else [])})
            evs.append({'op': 'estimate', 'x': [[g, el.qcount(c)] for g, c in m],
                        'basis': red if red else ['-'], 'M': M if red else [[[0, 1]]], 'obs': obs})
            side.append(('estimate', m, None))
            if kind == 'error':
                continue
            for p in ('Cp', 'H', 'S'):
                for T in probes[:4]:
                    k2, v, warns = call(getattr(est, SE[p]), T)
                    o, val = cl.classify(k2, v, warns)
                    evs.append({'op': 'se', 'prop': p, 't': rank[T], 'obs': o})
                    side.append(('se', m, (p, T, val)))
        out, rr = ctx.tlc_json('Trace_Estimate', 'Trace_Estimate.cfg', {'traces': [evs]})
        if not out.get('done'):
            raise MachineryError('Trace_Estimate did not finish')
        ctx.traces += 1
        bad = set(p for _, p in out['bad'])
        for i, (ev, sd, how) in enumerate(zip(evs, side, out['how']), 1):
            if sd is None:
                continue
            ctx.count()
            ms = '{' + ', '.join('%s: %s' % gc for gc in sd[1]) + '}'
            if i in bad:
                report('se', '%s:%s:%s' % (name, ev['op'], ms),
                       '%s: %s on mapping %s -> %s; spec expects %s'
                       % (name, ev['op'] if ev['op'] == 'estimate' else SE[sd[2][0]] + '(%g)' % sd[2][1],
                          ms, ev['obs'],
                          {k: v for k, v in how.items() if k in ('ok', 'cls', 'k')}))
                continue
            if ev['op'] == 'se' and how.get('k') == 'value' and how.get('q'):
                p, T, val = sd[2]
                q = float(el.fr(how['q'][0])) / 1e5
                kk, rv, _ = call(getattr(rmse, cl.GETTERS[p]), T)
                if kk == 'error' or q < 0:
                    continue
                exp = abs(float(rv)) * math.sqrt(q)
                if val is None or val < 0 or abs(val - exp) > 1e-9 * max(1.0, abs(exp)):
                    report('se', '%s:%s:%s(%g)' % (name, ms, p, T),
                           "%s: estimate(%s).%s(%g) = %r; |RMSE|*sqrt(x'Mx) = %r (x'Mx = %r)"
                           % (name, ms, SE[p], T, val, exp, q))


def run(ctx):
    thorough = ctx.tier == 'thorough'
    head, maps = el.run_mc(ctx, 'MC_Estimate_t.cfg' if thorough else 'MC_Estimate_q.cfg')
    ctx.log('MC_Estimate: %d mappings' % len(maps))
    d = tempfile.mkdtemp(prefix='synth_', dir=ctx.scratch)
    kind, lib, _ = call(el.GroupLibrary.Load, el.write_synth(d, head['lib'], head['uq'], head['rmse']))
    if kind == 'error':
        raise MachineryError('synthetic library does not load: %r' % lib)

    def report(tag, key, what):
        if tag == 'se':
            ctx.violation(key, what, {'kind': tag, 'key': key})
    ctx.evaluations += el.replay_maps(ctx, head, maps, lib, report, with_se=True)
    for m in maps:
        ctx.distinct.add(el.show_map(m['x']))
    ctx.sample({'mapping': el.show_map(maps[7]['x']), 'xMx': str(el.fr(maps[7]['q'][0])) if maps[7]['q'] else None})
    # the library file is edited (every matrix entry times four) and loaded again from the same path:
    # the standard errors follow the file that was loaded, i.e. they double
    uq4 = dict(head['uq'])
    uq4['M'] = [[[4 * x[0], x[1]] for x in row] for row in head['uq']['M']]
    kind, lib4, _ = call(el.GroupLibrary.Load, el.write_synth(d, head['lib'], uq4, head['rmse']))
    if kind == 'error':
        raise MachineryError('edited synthetic library does not load: %r' % lib4)
    maps4 = [dict(m, q=[[4 * m['q'][0][0], m['q'][0][1]]]) for m in maps if m.get('q')][:60]
    ctx.evaluations += el.replay_maps(ctx, head, maps4, lib4, report, with_se=True)
    libs = el.uq_libs()
    ctx.extra['uq_libraries'] = libs
    _real(ctx, libs, 120 if thorough else 25, report, thorough)
    ctx.extra['mc'] = {'mappings': len(maps)}
    ctx.exhaustive = True
    ctx.assumptions += [
        "the library's RMSE correlation values are observations (its own getters)",
        'matrix entries are the decimals written in uq.yaml, read with yaml.safe_load',
        "positive semi-definiteness is not decided; x'Mx >= 0 is checked on every vector enumerated"]


def replay(ctx, rep):
    run(ctx)
