"""C11 - incompatible quantities never combine; compatible ones act as numbers.

Pass A: TLC explores MC_Quantity (calculator state machine over a universe of
        quantities x every operator; static theorems Trichotomy, Antisym,
        AddSub, MulDiv, Incompatible, PlainOperand, SqrtSquare) and exports the
        expected result of every (operand, operator, operand) transition.
Run   : every exported transition is executed on pgradd's Quantity /
        ArrayQuantity (spec -> code).
Pass B: seeded random calculator histories on the real objects are validated
        event by event by Trace_Quantity (code -> spec).
"""
import json
import math
import operator
import os
import random
from fractions import Fraction

import numpy as np

from ..common import use_repo, call, MachineryError

use_repo()
from pgradd.Units import eval_qty, Quantity, ArrayQuantity   # noqa: E402
from pgradd.Units.qty import GenericQuantity                 # noqa: E402

PRIM = ['m', 'kg', 's', 'A', 'K', 'mol', 'cd']


def fr(x):
    return Fraction(x[0], x[1])


def rat(x):
    """float -> [n, d] (exact when the float is a small rational)."""
    x = float(x)
    if not math.isfinite(x):
        return ['nonfinite', 0]
    f = Fraction(x).limit_denominator(10**6)
    if abs(float(f) - x) > 1e-12 * max(1.0, abs(x)):
        return ['inexact', repr(x)]
    if abs(f.numerator) >= 2**31:
        return ['big', repr(x)]
    return [f.numerator, f.denominator]


def unit_of(dim):
    """the quantity 1 <unit> with the given exponents, via the public parser"""
    parts = []
    for name, e in zip(PRIM, dim):
        e = fr(e)
        if e == 0:
            continue
        if e.denominator == 1:
            parts.append('%s^(%d)' % (name, e.numerator) if e < 0
                         else '%s^%d' % (name, e.numerator))
        else:
            parts.append('%s^%r' % (name, float(e)))
    with_q = call(eval_qty, ' '.join(parts))
    if with_q[0] == 'error':
        raise MachineryError('cannot build unit %r: %r' % (parts, with_q[1]))
    return with_q[1]


def build(x):
    """spec operand record -> python object"""
    t = x['t']
    if t == 'num':
        f = fr(x['v'])
        return int(f) if f.denominator == 1 and f != 2 else float(f)
    if t == 'qty':
        u = unit_of(x['d'])
        k, q, _ = call(lambda: float(fr(x['v'])) * u)
        return q
    if t == 'numarr':
        return np.array([float(fr(v)) for v in x['vs']])
    if t == 'arr':
        u = unit_of(x['d'])
        k, q, _ = call(lambda: np.array([float(fr(v)) for v in x['vs']]) * u)
        if not isinstance(q, ArrayQuantity):
            raise MachineryError('cannot build array quantity: %r' % (q,))
        return q
    raise MachineryError('bad operand %r' % (x,))


def dims_of(units):
    return [rat(e)[:2] if True else None for e in units.exps]


def observe(kind, v):
    """python result -> record comparable with the spec's result records"""
    if kind == 'error':
        return {'t': 'err', 'cls': type(v).__name__}
    if isinstance(v, Quantity):
        return {'t': 'qty', 'v': rat(v.value), 'd': dims_of(v.units)}
    if isinstance(v, ArrayQuantity):
        return {'t': 'arr', 'vs': [rat(z) for z in v.view(np.ndarray)],
                'd': dims_of(v._units)}
    if isinstance(v, (bool, np.bool_)):
        return {'t': 'bool', 'b': bool(v)}
    if isinstance(v, np.ndarray):
        if v.dtype == bool:
            return {'t': 'bools', 'bs': [bool(z) for z in v]}
        return {'t': 'numarr', 'vs': [rat(z) for z in v]}
    if isinstance(v, (int, float, np.floating, np.integer)):
        return {'t': 'num', 'v': rat(v)}
    return {'t': 'other', 'repr': repr(v)[:80]}


PYOPS = {'add': operator.add, 'sub': operator.sub, 'mul': operator.mul,
         'div': operator.truediv, 'eq': operator.eq, 'ne': operator.ne,
         'lt': operator.lt, 'le': operator.le, 'gt': operator.gt,
         'ge': operator.ge, 'neg': operator.neg, 'abs': abs}


def involves_lib(*objs):
    return any(isinstance(o, GenericQuantity) for o in objs)


def match(o, x):
    """observed record o against expected spec record x"""
    if x['t'] == 'err':
        return o['t'] == 'err' and (x['cls'] == 'any' or o['cls'] == x['cls'])
    if o['t'] != x['t']:
        return False
    if x['t'] in ('num', 'qty'):
        if x['v'] != [0, 0] and o['v'] != x['v']:
            return False
        return x['t'] == 'num' or o['d'] == x['d']
    return all(o.get(k) == x.get(k) for k in x)


def show(x):
    if x['t'] == 'num':
        return str(fr(x['v'])) if x['v'][1] else '?'
    if x['t'] in ('qty', 'arr'):
        u = ' '.join('%s^%s' % (n, fr(e)) for n, e in zip(PRIM, x['d'])
                     if e[0] != 0)
        vs = x['v'] if x['t'] == 'qty' else x['vs']
        return '%s [%s]' % (vs, u)
    return json.dumps(x)


def _opkey(op, a, b=None):
    def cls(x):
        if x is None:
            return ''
        z = 'zero' if all(v[0] == 0 for v in (x.get('vs') or [x.get('v', [1, 1])])) else 'nz'
        if x['t'] in ('qty', 'arr'):
            return '%s(%s,%s)' % (x['t'], z, '.'.join('%d/%d' % tuple(e) for e in x['d']))
        return '%s(%s)' % (x['t'], z)
    return '%s:%s:%s' % (op, cls(a), cls(b))


def finding_key(op, a, b, refl=False):
    """Stable identity of a failing transition class: operator + whether the
    right operand is a zero-valued quantity of another dimension."""
    if b is not None and b['t'] in ('qty', 'arr') and a['t'] in ('qty', 'arr') \
            and b['d'] != a['d']:
        bz = all(v[0] == 0 for v in (b.get('vs') or [b.get('v')]))
        az = all(v[0] == 0 for v in (a.get('vs') or [a.get('v')]))
        if bz or az:
            return 'zero-valued-quantity-of-other-dimension:%s' % op
    return None


def _replay_export(ctx, exp):
    nbad = 0
    for rec in exp['bin']:
        a, b, op = rec['a'], rec['b'], rec['op']
        if rec['r']['t'] == 'unspecified':
            continue
        pa, pb = build(a), build(b)
        if not involves_lib(pa, pb):
            continue
        kind, v, _ = call(PYOPS[op], pa, pb)
        o = observe(kind, v)
        ctx.count(_opkey(op, a, b))
        if not match(o, rec['r']):
            nbad += 1
            key = finding_key(op, a, b) or ('bin:%s' % _opkey(op, a, b))
            ctx.violation(key, '(%s) %s (%s) = %s, spec expects %s'
                          % (show(a), op, show(b), show(o), show(rec['r'])),
                          {'kind': 'bin', 'rec': rec, 'obs': o})
    for rec in exp['un']:
        pa = build(rec['a'])
        if not involves_lib(pa):
            continue
        kind, v, _ = call(PYOPS[rec['op']], pa)
        o = observe(kind, v)
        ctx.count(_opkey(rec['op'], rec['a']))
        if not match(o, rec['r']):
            ctx.violation('un:%s' % _opkey(rec['op'], rec['a']),
                          '%s (%s) = %s, spec expects %s'
                          % (rec['op'], show(rec['a']), show(o), show(rec['r'])),
                          {'kind': 'un', 'rec': rec, 'obs': o})
    for rec in exp['pow']:
        pa = build(rec['a'])
        p = fr(rec['p'])
        pp = int(p) if p.denominator == 1 else float(p)
        kind, v, _ = call(operator.pow, pa, pp)
        if kind == 'error' and rec['r']['v'] == [0, 0]:
            continue            # 0 ** -1 and the like: outside the statement
        o = observe(kind, v)
        ctx.count('pow:%s:%s' % (_opkey('', rec['a']), p))
        if not match(o, rec['r']):
            ctx.violation('pow:%s:%s' % (_opkey('', rec['a']), p),
                          '(%s) ** %s = %s, spec expects %s'
                          % (show(rec['a']), p, show(o), show(rec['r'])),
                          {'kind': 'pow', 'rec': rec, 'obs': o})
    for rec in exp['inu']:
        pa, pu = build(rec['a']), build(rec['u'])
        kind, v, _ = call(lambda: pa.in_units(pu))
        o = observe(kind, v)
        ctx.count('inu:%s' % _opkey('', rec['a'], rec['u']))
        if not match(o, rec['r']):
            ctx.violation('in_units:%s' % _opkey('', rec['a'], rec['u']),
                          '(%s).in_units(%s) = %s, spec expects %s'
                          % (show(rec['a']), show(rec['u']), show(o), show(rec['r'])),
                          {'kind': 'inu', 'rec': rec, 'obs': o})
        # has_units agrees with convertibility
        kind2, hv, _ = call(lambda: pa.has_units(pu))
        want = rec['r']['t'] != 'err'
        if kind2 == 'error' or bool(hv) != want:
            ctx.violation('has_units:%s' % _opkey('', rec['a'], rec['u']),
                          '(%s).has_units(%s) = %r, spec expects %r'
                          % (show(rec['a']), show(rec['u']), hv, want),
                          {'kind': 'inu', 'rec': rec, 'obs': o})
    return nbad


# ------------------------------------------------------------ random traces
DIMS = [[1, 0, 0, 0, 0, 0, 0], [0, 1, 0, 0, 0, 0, 0], [0, 0, 1, 0, 0, 0, 0],
        [0, 0, 0, 1, 0, 0, 0], [0, 0, 0, 0, 1, 0, 0], [0, 0, 0, 0, 0, 1, 0],
        [0, 0, 0, 0, 0, 0, 1], [1, 1, -2, 0, 0, 0, 0], [2, 1, -2, 0, 0, 0, 0],
        [2, 1, -2, 0, 0, -1, 0], [2, 1, -2, 0, -1, -1, 0], [-1, 1, -2, 0, 0, 0, 0],
        [1, 0, -1, 0, 0, 0, 0], [3, 0, 0, 0, 0, 0, 0]]


def _dim(rng):
    d = rng.choice(DIMS)
    return [[e, 1] for e in d]


def _mag(rng):
    # dyadic magnitudes (exactly representable): k/8, incl. zero, negative, equal
    return list(rat(rng.choice([0, 1, 1, 2, 3, -2, 4, 9, 0.5, -1.5, 0.25, 6, 16,
                                rng.randint(-40, 40) / 8.0])))


def _operand(rng, like=None, allow_arr=True):
    r = rng.random()
    d = None
    if like is not None and like['t'] in ('qty', 'arr') and rng.random() < .6:
        d = like['d']
    if d is None:
        d = _dim(rng)
    if r < .12:
        return {'t': 'num', 'v': rng.choice([[0, 1], [0, 1], [2, 1], [-3, 2], [1, 1]])}
    n = len(like['vs']) if like is not None and like['t'] in ('arr', 'numarr') else 2
    if allow_arr and r < .3:
        return {'t': 'arr', 'vs': [_mag(rng) for _ in range(n)], 'd': d}
    if allow_arr and r < .34:
        return {'t': 'numarr', 'vs': [[0, 1]] * n}
    return {'t': 'qty', 'v': _mag(rng), 'd': d}


def _small(o):
    vals = o.get('vs') or ([o['v']] if 'v' in o else [])
    for v in vals:
        if not isinstance(v[0], int) or abs(v[0]) > 2000 or v[1] > 2000:
            return False
    for e in o.get('d', []):
        if not isinstance(e[0], int) or abs(e[0]) > 12 or e[1] > 4:
            return False
    return True


def _record_trace(rng, length):
    a = _operand(rng)
    while a['t'] in ('num', 'numarr'):
        a = _operand(rng)
    cur = build(a)
    cur_rec = a
    evs = [{'op': 'init', 'b': a, 'obs': observe('value', cur)}]
    for _ in range(length):
        r = rng.random()
        is_arr = cur_rec['t'] in ('arr', 'numarr')
        if r < .62:
            op = rng.choice(['add', 'sub', 'mul', 'div', 'eq', 'ne', 'lt', 'le',
                             'gt', 'ge', 'add', 'sub', 'lt', 'gt'])
            b = _operand(rng, cur_rec)
            if rng.random() < .04:
                # a plain number that is tiny but not zero is not the bare zero
                b = {'t': 'num', 'v': rng.choice([[1, 1000000000], [-1, 100000000], [1, 2000000000]])}
                op = rng.choice(['add', 'sub', 'lt', 'gt', 'le', 'ge', 'eq', 'ne'])
            refl = b['t'] == 'num' and rng.random() < .5
            pb = build(b)
            if not involves_lib(cur, pb):
                continue
            if op == 'div' and any(v[0] == 0 for v in
                                   ((cur_rec.get('vs') or [cur_rec.get('v')]) if refl
                                    else (b.get('vs') or [b.get('v')]))):
                continue
            kind, v, _ = (call(PYOPS[op], pb, cur) if refl
                          else call(PYOPS[op], cur, pb))
            ev = {'op': op, 'b': b, 'refl': refl}
        elif r < .72:
            op = rng.choice(['neg', 'abs'])
            if not involves_lib(cur):
                continue
            kind, v, _ = call(PYOPS[op], cur)
            ev = {'op': op}
        elif r < .86:
            if is_arr or cur_rec['t'] == 'num':
                continue
            val = fr(cur_rec['v'])
            p = rng.choice([Fraction(2), Fraction(-1), Fraction(1, 2),
                            Fraction(0), Fraction(3)])
            if p < 0 and val == 0:
                continue
            if abs(val.numerator) > 30 or val.denominator > 30:
                continue
            if p == Fraction(1, 2):
                if val < 0:
                    continue
                sn, sd = math.isqrt(val.numerator), math.isqrt(val.denominator)
                if sn * sn != val.numerator or sd * sd != val.denominator:
                    continue
            pp = int(p) if p.denominator == 1 else float(p)
            kind, v, _ = call(operator.pow, cur, pp)
            ev = {'op': 'pow', 'p': [p.numerator, p.denominator]}
        else:
            if not involves_lib(cur):
                continue
            u = {'t': 'qty', 'v': rng.choice([[1, 1], [1, 100], [5, 2]]),
                 'd': cur_rec['d'] if rng.random() < .6 else _dim(rng)}
            pu = build(u)
            kind, v, _ = call(lambda: cur.in_units(pu))
            ev = {'op': 'in_units', 'u': u}
        o = observe(kind, v)
        ev['obs'] = o
        evs.append(ev)
        if o['t'] in ('qty', 'arr', 'num', 'numarr'):
            if not _small(o):
                break
            cur, cur_rec = v, o
            if o['t'] in ('num', 'numarr'):
                # became a plain number: restart from a fresh quantity
                break
    return evs


def _scripted():
    """fixed histories: fractional exponents that cancel exactly (3/10 - 1/10 - 1/5 = 0) leave a plain number
    or the dimension of the other factor, whatever residue binary floating point leaves in between"""
    def q(v, d):
        return {'t': 'qty', 'v': [v, 1], 'd': d}

    def frac(n, dn, k=0):
        d = [[0, 1]] * 7
        d = list(d)
        d[k] = [n, dn]
        return d
    second = [[0, 1], [0, 1], [1, 1]] + [[0, 1]] * 4
    scripts = []
    for k in (0, 2, 4):
        scripts.append((q(1, frac(3, 10, k)), [('div', q(1, frac(1, 10, k))), ('div', q(1, frac(1, 5, k)))]))
        scripts.append((q(2, frac(7, 10, k)), [('div', q(1, frac(2, 5, k))), ('div', q(2, frac(3, 10, k)))]))
    scripts.append((q(4, second), [('mul', q(1, frac(3, 10))), ('div', q(1, frac(1, 10))), ('div', q(1, frac(1, 5))),
                                   ('add', q(1, second)), ('lt', q(6, second))]))
    scripts.append((q(1, frac(1, 10)), [('mul', q(1, frac(1, 5))), ('div', q(1, frac(3, 10)))]))
    out = []
    for a, steps in scripts:
        cur = build(a)
        evs = [{'op': 'init', 'b': a, 'obs': observe('value', cur)}]
        for op, b in steps:
            kind, v, _ = call(PYOPS[op], cur, build(b))
            o = observe(kind, v)
            evs.append({'op': op, 'b': b, 'refl': False, 'obs': o})
            if o['t'] not in ('qty', 'arr', 'num', 'numarr'):
                continue
            if o['t'] in ('num', 'numarr'):
                break
            cur = v
        out.append(evs)
    return out


def _describe(ev):
    s = ev['op']
    if 'b' in ev:
        s += (' [reflected] ' if ev.get('refl') else ' ') + show(ev['b'])
    if 'p' in ev:
        s += ' %s' % fr(ev['p'])
    if 'u' in ev:
        s += ' ' + show(ev['u'])
    return s + ' -> ' + show(ev['obs'])


def _validate(ctx, traces, label):
    out, r = ctx.tlc_json('Trace_Quantity', 'Trace_Quantity.cfg',
                          {'traces': traces})
    if not out.get('done'):
        raise MachineryError('trace validation did not finish')
    ctx.traces += len(traces)
    for b in out['bad']:
        tr = traces[b['tid'] - 1]
        ev = tr[b['i'] - 1]
        # the accumulator before the event = last value observation
        prev = [e['obs'] for e in tr[:b['i'] - 1]
                if e['obs']['t'] in ('qty', 'arr', 'num', 'numarr')][-1]
        key = None
        if 'b' in ev:
            key = finding_key(ev['op'], prev, ev['b'])
        key = key or ('trace:%s:%s' % (ev['op'], _opkey('', prev, ev.get('b') or ev.get('u'))))
        ctx.violation(key,
                      '%s: acc=(%s) then %s ; spec expects %s'
                      % (label, show(prev), _describe(ev), show(b['exp'])),
                      {'kind': 'trace', 'trace': tr[:b['i']], 'expected': b})
    return out


def run(ctx):
    thorough = ctx.tier == 'thorough'
    cfg = 'MC_Quantity_t.cfg' if thorough else 'MC_Quantity_q.cfg'
    vout = os.path.join(ctx.scratch, 'q_export.json')
    r = ctx.tlc('MC_Quantity', cfg, env={'VOUT': vout}, workers=16)
    with open(vout) as f:
        exp = json.load(f)
    os.unlink(vout)
    n = sum(len(exp[k]) for k in exp)
    ctx.extra['mc'] = {'cfg': cfg, 'distinct_states': r.distinct,
                       'transitions': r.generated, 'exported_transitions': n,
                       'wall_s': round(r.wall, 1)}
    ctx.log('MC_Quantity: %d states, %d transitions, %d exported'
            % (r.distinct, r.generated, n))
    rec = exp['bin'][len(exp['bin']) // 3]
    ctx.sample({'transition': '(%s) %s (%s) -> %s'
                % (show(rec['a']), rec['op'], show(rec['b']), show(rec['r']))})
    _replay_export(ctx, exp)
    rng = random.Random(ctx.seed)
    ntr, ln = (1500, 14) if thorough else (250, 10)
    traces = []
    while len(traces) < ntr:
        t = _record_trace(rng, ln)
        if len(t) > 1:
            traces.append(t)
    for tr in traces:
        for ev in tr[1:]:
            ctx.count()
    ctx.sample({'history': [_describe(e) for e in traces[0][:5]]})
    out = _validate(ctx, traces, 'random history')
    ctx.extra['trace_events'] = out['events']
    fixed = _scripted()
    out2 = _validate(ctx, fixed, 'fixed history')
    ctx.extra['trace_events'] += out2['events']
    ctx.exhaustive = True
    ctx.assumptions += [
        'magnitudes are small rationals (dyadic floats), so float arithmetic of '
        'the implementation is exact and compared exactly',
        'num**quantity, quantity**quantity, division by zero and 0**negative '
        'are outside the statement: any error is accepted / not generated',
        'exhaustive part bounded by the universe and depth of ' + cfg]


def replay(ctx, rep):
    case = rep['case']
    if case['kind'] == 'trace':
        evs = []
        cur = None
        for ev in case['trace']:
            e2 = dict(ev)
            if ev['op'] == 'init':
                cur = build(ev['b'])
                kind, v = 'value', cur
            elif ev['op'] in ('neg', 'abs'):
                kind, v, _ = call(PYOPS[ev['op']], cur)
            elif ev['op'] == 'pow':
                p = fr(ev['p'])
                kind, v, _ = call(operator.pow, cur,
                                  int(p) if p.denominator == 1 else float(p))
            elif ev['op'] == 'in_units':
                pu = build(ev['u'])
                kind, v, _ = call(lambda: cur.in_units(pu))
            else:
                pb = build(ev['b'])
                kind, v, _ = (call(PYOPS[ev['op']], pb, cur) if ev.get('refl')
                              else call(PYOPS[ev['op']], cur, pb))
            e2['obs'] = observe(kind, v)
            if e2['obs']['t'] in ('qty', 'arr', 'num', 'numarr'):
                cur = v
            evs.append(e2)
        _validate(ctx, [evs], 'replay')
    else:
        k = {'bin': 'bin', 'un': 'un', 'pow': 'pow', 'inu': 'inu'}[case['kind']]
        exp = {'bin': [], 'un': [], 'pow': [], 'inu': []}
        exp[k] = [case['rec']]
        _replay_export(ctx, exp)
