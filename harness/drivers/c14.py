"""C14 - every shipped database loads, is self-consistent and relocatable.

For each of the nine bundled libraries:
  * it is loaded by name, by explicit path, and from a relocated copy selected
    through pgradd_DATA_DIR - each in a fresh process - and the three
    projections (every group, every loaded number as repr) must be identical;
  * the YAML files are read independently (yaml.safe_load, own include walk);
    Static.tla decides RemapWF, ChainFree, SameContents, MatrixSquare,
    MatrixSymmetric, BasisHasData, BasisDistinct;
  * every group's document is given its meaning by LibLoad.tla (exact
    magnitudes) and compared with what the implementation loaded;
  * every group is evaluated at T_ref, the range ends and every knot: finite
    plain numbers for each property it has data for;
  * every scheme pattern and correction descriptor is readable.
Positive semi-definiteness cannot be decided by TLC (DESIGN section 6): the
diagonal and every enumerated x'Mx (C20) are checked; a numerical eigenvalue
check is reported separately as auxiliary evidence.
"""
import json
import os
import shutil
import subprocess
import sys
import tempfile
from fractions import Fraction

import numpy as np
import yaml

from .. import liblib as ll
from .. import corrlib as cl
from ..common import call, codes, MachineryError, REPO, VERIF

PROJ = r'''
import sys, json, io, contextlib
sys.path.insert(0, sys.argv[1])
buf = io.StringIO()
projs = []
with contextlib.redirect_stdout(buf):
    import pgradd.ThermoChem
    from pgradd.GroupAdd.Library import GroupLibrary
    for arg in sys.argv[2:]:
        lib = GroupLibrary.Load(arg)
        out = {}
        for g in lib:
            c = lib[g].get('thermochem')
            if c is None:
                out[str(g)] = None
                continue
            out[str(g)] = {'T_ref': repr(float(c.T_ref)), 'H': repr(c.ND_H_ref) if c.ND_H_ref is None else repr(float(c.ND_H_ref)),
                           'S': repr(c.ND_S_ref) if c.ND_S_ref is None else repr(float(c.ND_S_ref)),
                           'Cp': sorted((repr(float(t)), repr(float(v))) for t, v in (c.ND_Cp_data or {}).items()),
                           'range': None if c.get_range() is None else [repr(float(x)) for x in c.get_range()]}
        uq = lib.uq_contents
        projs.append({'groups': out, 'order': [str(g) for g in lib],
                      'uq': None if not uq else {'descriptors': [str(d) for d in uq['descriptors']],
                                                 'mat': [[repr(float(x)) for x in row] for row in uq['mat']],
                                                 'dof': repr(uq['dof'])},
                      'patterns': len(lib.scheme.patterns), 'others': len(lib.scheme.other_descriptors),
                      'remaps': {str(k): [[repr(float(a)), str(b)] for a, b in v] for k, v in lib.scheme.remaps.items()}})
print(json.dumps(projs))
'''


def fresh_loads(args, env_extra=None):
    """one fresh process loading the given libraries one after the other -> (projections, error)"""
    env = dict(os.environ)
    env.pop('pgradd_DATA_DIR', None)
    env.update(env_extra or {})
    p = subprocess.run([sys.executable, '-W', 'ignore', '-c', PROJ, REPO] + list(args), env=env,
                       stdout=subprocess.PIPE, stderr=subprocess.PIPE, universal_newlines=True, timeout=600)
    if p.returncode != 0:
        return None, p.stderr.strip().splitlines()[-1] if p.stderr.strip() else 'exit %d' % p.returncode
    return json.loads(p.stdout.strip().splitlines()[-1]), None


def fresh_load(arg, env_extra=None):
    projs, err = fresh_loads([arg], env_extra)
    return (projs[0] if projs else None), err


def psd_exact(rows):
    """exact decision of positive semi-definiteness of a symmetric rational matrix by symmetric
    elimination (Schur complements): -> None if it is, else a description of the failing pivot"""
    a = [[Fraction(str(v)) for v in row] for row in rows]
    n = len(a)
    for k in range(n):
        p = a[k][k]
        if p < 0:
            return 'pivot %d of the symmetric elimination is negative (%s)' % (k + 1, float(p))
        if p == 0:
            if any(a[k][j] != 0 for j in range(k + 1, n)):
                return 'pivot %d is zero with a non-zero row' % (k + 1)
            continue
        for i in range(k + 1, n):
            if a[i][k] == 0:
                continue
            f = a[i][k] / p
            for j in range(i, n):
                a[i][j] -= f * a[k][j]
                a[j][i] = a[i][j]
    return None


def run(ctx):
    thorough = ctx.tier == 'thorough'
    libs = cl.LIBS if thorough else ['BensonGA', 'GRWSurface2018', 'PtSurface2023']

    def report(key, what):
        ctx.violation(key, what, {'kind': 'c14', 'key': key})
    reloc = tempfile.mkdtemp(prefix='reloc_', dir=ctx.scratch)
    datadir = os.path.join(REPO, 'pgradd', 'data')
    static_in = []
    events, meta = [], []
    from pgradd.RINGParser import Read
    from concurrent.futures import ThreadPoolExecutor
    for name in cl.LIBS:
        shutil.copytree(os.path.join(datadir, name), os.path.join(reloc, name))
    jobs = []
    for name in cl.LIBS:
        jobs += [(name, None), (os.path.join(datadir, name, 'library.yaml'), None), (name, {'pgradd_DATA_DIR': reloc})]
    with ThreadPoolExecutor(max_workers=14) as ex:
        loaded = list(ex.map(lambda j: fresh_load(*j), jobs))
        # all nine one after the other in ONE process, in both orders: what a library contains does not
        # depend on which libraries the process loaded before it
        fwd, rev = ex.map(lambda order: fresh_loads(order), [list(cl.LIBS), list(reversed(cl.LIBS))])
    byname = {}
    for k, name in enumerate(cl.LIBS):
        byname[name] = loaded[3 * k][0]
    for label, order, (projs, err) in (('alphabetical', list(cl.LIBS), fwd), ('reverse', list(reversed(cl.LIBS)), rev)):
        ctx.count('one-process:' + label)
        if projs is None:
            report('load-sequence:%s' % label, 'loading all libraries in %s order in one process fails: %s' % (label, err))
            continue
        for name, proj in zip(order, projs):
            ref = byname.get(name)
            if ref is not None and proj != ref:
                diff = [g for g in ref['groups'] if proj['groups'].get(g) != ref['groups'][g]][:3]
                report('load-sequence:%s:%s' % (label, name),
                       'library %s loaded after %s in one process differs from loading it alone (groups e.g. %s; '
                       'uq equal: %s; remaps equal: %s%s)'
                       % (name, order[:order.index(name)], diff, proj['uq'] == ref['uq'], proj['remaps'] == ref['remaps'],
                          '' if proj['remaps'] == ref['remaps'] else '; e.g. %s' % sorted(
                              (k_, proj['remaps'].get(k_), ref['remaps'].get(k_)) for k_ in set(proj['remaps']) | set(ref['remaps'])
                              if proj['remaps'].get(k_) != ref['remaps'].get(k_))[:2]))
    for k, name in enumerate(cl.LIBS):
        deep = name in libs
        (a, ea), (b, eb), (c, ec) = loaded[3 * k:3 * k + 3]
        ctx.count('load3:' + name)
        for way, proj, err in (('by name', a, ea), ('by path', b, eb), ('relocated', c, ec)):
            if proj is None:
                report('load:%s:%s' % (name, way), 'library %s does not load %s: %s' % (name, way, err))
        if a is None or b is None or c is None:
            continue
        for way, other in (('by path', b), ('relocated', c)):
            if other != a:
                diff = [g for g in a['groups'] if other['groups'].get(g) != a['groups'][g]][:3]
                report('differs:%s:%s' % (name, way),
                       'library %s loaded %s differs from loading it by name (e.g. groups %s; uq equal: %s; '
                       'remaps equal: %s)' % (name, way, diff, other['uq'] == a['uq'], other['remaps'] == a['remaps']))
        # make sure the relocated copy was really used: a marker group added to the copy
        files = ll.library_files(name)
        units_of = {}
        groups_in_files = {}
        for path, y in files:
            for sect in ('groups', 'other_descriptors'):
                for gname, sets in (y.get(sect) or {}).items():
                    t = (sets or {}).get('thermochem')
                    key = _canon(str(gname), None) if sect == 'groups' else str(gname)
                    groups_in_files.setdefault(key, []).append((path, y.get('units'), t))
        # documents -> LibLoad
        in_proc_kind, lib, _ = call(ll.GroupLibrary.Load, name) if deep else (None, None, None)
        nmulti = 0
        for gname, occ in sorted(groups_in_files.items()) if deep else []:
            if len(occ) != 1 or occ[0][2] is None:
                nmulti += 1
                continue          # data split over several files: covered by C13
            path, units, t = occ[0]
            try:
                doc = ll.doc_of(t)
            except ll.NotRepresentable:
                continue
            g = [x for x in lib if str(x) == gname]
            if not g:
                report('missing-group:%s:%s' % (name, gname), 'library %s: group %s of %s is not in the loaded library'
                       % (name, gname, os.path.basename(path)))
                continue
            corr = lib[g[0]]['thermochem']
            events.append({'doc': doc, 'defs': ll.defs_of(units), 'obs': ll.obs_of('value', corr)})
            meta.append(('%s/%s' % (name, gname), corr))
        # evaluation of every group
        for gname in a['groups'] if deep else []:
            corr = lib[gname].get('thermochem')
            if corr is None:
                continue
            r = corr.get_range()
            ts = sorted(corr.ND_Cp_data) if corr.ND_Cp_data else []
            probes = sorted(set([float(corr.T_ref)] + [float(x) for x in ts] +
                                ([float(r[0]), float(r[1])] if r is not None else [])))
            for p, has in (('Cp', bool(ts)), ('H', corr.ND_H_ref is not None), ('S', corr.ND_S_ref is not None),
                           ('G', corr.ND_H_ref is not None and corr.ND_S_ref is not None)):
                if not has:
                    continue
                for T in probes:
                    if r is not None and not (r[0] <= T <= r[1]):
                        continue
                    if not ts and T != float(corr.T_ref):
                        continue
                    kk, v, w = call(getattr(corr, cl.GETTERS[p]), T)
                    o, val = cl.classify(kk, v, w)
                    ctx.evaluations += 1
                    if o['k'] != 'value':
                        report('evaluate:%s/%s:%s' % (name, gname, p),
                               'library %s: group %s: %s(%g) -> %s (expected a finite plain number)'
                               % (name, gname, cl.GETTERS[p], T, o))
                        break
        # patterns readable (independent read of scheme.yaml)
        with open(os.path.join(datadir, name, 'scheme.yaml')) as f:
            sch = yaml.safe_load(f)
        for sect, key in (('patterns', 'center_name'), ('other_descriptors', 'name')):
            for k, pat in enumerate((sch.get(sect) or []) if deep else []):
                kk, q, _ = call(Read, pat['connectivity'])
                ctx.evaluations += 1
                if kk == 'error':
                    report('pattern:%s:%s[%d]' % (name, sect, k), 'library %s: %s[%d] (%s) is not readable: %s: %s'
                           % (name, sect, k, pat.get(key), type(q).__name__, str(q)[:100]))
        uq = None
        for path, y in files:
            if y.get('UQ'):
                uq = y['UQ']
        remaps = [{'src': str(k), 'rules': [[Fraction(str(r[0])).numerator, Fraction(str(r[0])).denominator, str(r[1])]
                                            for r in v] if isinstance(v, list) else []}
                  for k, v in (sch.get('remaps') or {}).items()]
        static_in.append({
            'name': name, 'remaps': remaps,
            'groups': sorted(groups_in_files),
            'basis': [str(x) for x in uq['InvCovMat']['groups']] if uq else [],
            'mat': [[int(round(Fraction(str(v)) * 100000)) for v in row] for row in uq['InvCovMat']['mat']] if uq else [],
            'byname': a['order'], 'bypath': b['order'], 'relocated': c['order']})
        if uq:
            ev = np.linalg.eigvalsh(np.array(uq['InvCovMat']['mat'], dtype=float))
            ctx.extra.setdefault('aux_min_eigenvalue', {})[name] = float(ev.min())
            why = psd_exact(uq['InvCovMat']['mat'])
            ctx.extra.setdefault('aux_psd_exact', {})[name] = why is None
            if why is not None:
                report('psd:%s' % name, 'library %s: uncertainty matrix is not positive semi-definite: %s; smallest '
                       'eigenvalue %g (exact rational elimination outside TLC, see DESIGN section 6)' % (name, why, ev.min()))
    # relocation really used: a marker library only present in the relocated dir
    os.makedirs(os.path.join(reloc, 'MarkerLib'))
    shutil.copy(os.path.join(datadir, libs[0], 'scheme.yaml'), os.path.join(reloc, 'MarkerLib', 'scheme.yaml'))
    with open(os.path.join(reloc, 'MarkerLib', 'library.yaml'), 'w') as f:
        f.write('groups:\n  ZZ(Q):\n    thermochem:\n      T_ref: 300 K\n      ND_H_ref: 1.5\n')
    m, em = fresh_load('MarkerLib', {'pgradd_DATA_DIR': reloc})
    if m is None or list(m['groups']) != ['ZZ(Q)']:
        report('relocation-ignored', 'pgradd_DATA_DIR is not honoured: MarkerLib in the relocated directory '
               'did not load (%s)' % em)
    # locating a library as a process-level state machine (DataDir.tla)
    import random
    from .. import datadir
    datadir.check(ctx, random.Random(ctx.seed), report)
    out, r = ctx.tlc_json('Static', 'Static.cfg', {'libs': static_in})
    if not out.get('done'):
        raise MachineryError('Static did not finish')
    for libname, clause in out['fail']:
        report('static:%s:%s' % (libname, clause), 'library %s violates %s (Static.tla)' % (libname, clause))
    bad, res = ll.validate(ctx, events)
    ctx.traces += len(events)
    for k, (ev, (label, corr), r2) in enumerate(zip(events, meta, res)):
        ctx.count(label)
        for (_, why) in [x for x in bad if x[0] == k]:
            report('%s:%s' % (why, label), '%s: %s: file means %s, loaded %s'
                   % (label, why, {kk: vv for kk, vv in r2.items() if kk in ('ok', 'cls')}, ev['obs']))
        if r2.get('ok'):
            ctx.evaluations += ll.compare(r2, corr, label, report, doc=ev['doc'])
    ctx.sample({'library': libs[0], 'groups': len(static_in[0]['groups']) if static_in else 0,
                'documents_checked': len(events)})
    ctx.extra['libraries'] = libs
    ctx.exhaustive = True
    ctx.assumptions += [
        'positive semi-definiteness is not decided by the specification (32-bit integers in TLC); it is decided '
        'exactly by rational symmetric elimination in the harness, for all nine libraries in both tiers',
        'loading, relocation, load-order independence, remap / basis / matrix-shape clauses cover all nine libraries '
        'in both tiers; per-group documents, evaluation and pattern readability cover the libraries listed',
        'pattern readability uses the implementation\'s reader here; the independent TLA+ reader is C09']


def _canon(name, lib):
    from pgradd.GroupAdd.Group import Group
    try:
        return str(Group.parse(None, name))
    except Exception:
        return name


def replay(ctx, rep):
    run(ctx)
