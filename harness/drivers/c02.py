"""C02 - descriptors equal the scheme file's declared decomposition.

Pass A: 16 TLC processes compile every pattern text of the schemes with the
        TLA+ RING reader (ASSUME PatternsReadable) and compute, for every
        (scheme, molecule) pair, the decomposition defined by Scheme.tla
        (aromatisation of alternating C6 rings, unique centre per atom or the
        pattern-match error, groups from centre + bag of neighbours' peripheral
        names, correction descriptors per distinct matched atom set, one remap
        step) on the graph exported by the harness (Kekule form, explicit H,
        ring list in toolkit order) - the scheme files are read independently.
Run   : GroupAdditivityScheme.GetDescriptors on the same inputs; the returned
        mapping, the failure class, and (through hook H1) the per-atom centre
        and peripheral names and the aromatic atoms must be the specification's.
Molecules: per scheme family, chains, branches, rings 3..8, alkenes incl.
        cis/trans, alkynes, allenes, carbonyls, esters, ethers, aromatics,
        radicals, N compounds; adsorbates with 1..4 Pt / Ru bonds; molecules
        outside the vocabulary for the failure clause; plus synthetic schemes
        with fractional and many-to-one remaps.
"""
import os
import random
import tempfile

from .. import schemelib as sl
from ..common import call, codes, uncodes, MachineryError

GAS = ['C', 'CC', 'CCC', 'CCCC', 'CC(C)C', 'CC(C)(C)C', 'CCCCCC', 'CC(C)CC', 'C=C', 'CC=C', 'C=CC=C', r'C/C=C\C',
       r'C/C=C/C', r'C/C=C\CCCCC/C=C\C', 'C#C', 'CC#C', 'C=C=C', 'C1CC1', 'C1CCC1', 'C1CCCC1', 'C1CCCCC1', 'C1CCCCCC1',
       'C1CCCCCCC1', 'C1=CCCCC1', 'c1ccccc1', 'Cc1ccccc1', 'CCc1ccccc1', 'Cc1ccccc1C', 'c1ccc(cc1)c1ccccc1', 'CO', 'CCO',
       'CC(C)O', 'COC', 'CCOCC', 'C=O', 'CC=O', 'CC(C)=O', 'CC(=O)O', 'CC(=O)OC', 'OCCO', 'OCC(O)CO', 'C1CCOC1', 'C1CO1',
       'Oc1ccccc1', '[CH3]', 'C[CH2]', 'CC[CH2]', 'C[CH]C', '[CH2]C=C', 'CN', 'CCN', 'CNC', 'CC#N', 'C=CC(=O)O', 'CC(C)C(C)C',
       'C1CCC2CCCCC2C1', 'c1ccoc1', 'OO', 'COO']
# structurally special inputs, always included: a remapped group met before a native occurrence of its
# target (COCC, CC=CCC), Kekule rings that are one double bond short of benzene, stereo double bonds with no
# hydrogen on either end, an aromatic ring next to a ring of another size, hydrogens written in brackets
KEY = ['COCC', 'CC=CCC', 'C1CC=CC=C1', 'C1=CCC=CC1', r'CC/C(C)=C(C)/CC', r'CC/C(C)=C(/C)CC', 'c1ccccc1C1CC1',
       'c1ccc2c(c1)CCC2', 'C1OC1c1ccccc1', 'CC[C@H](C)O', '[CH3][CH2]O',
       # a carbonyl next to an sp2 / aromatic carbon (peripheral names CO and C[d] / C[B] on one centre),
       # a hetero six-ring numbered before a benzene ring
       'C=CC=O', 'O=Cc1ccccc1', 'C1CCc2ccccc2O1',
       # a correction that a remap feeds (HalfCis -> 0.5 Cis) together with the correction itself
       'CC=CCC=C(C)C', 'CC(C)=CC',
       # a radical centre on an aromatic / triple-bonded carbon
       '[c]1ccccc1', 'Cc1cc[c]cc1', '[CH2]C#C', 'C#[C]',
       # a triple bond next to / away from a benzene ring
       'C#Cc1ccccc1', 'C#CCc1ccccc1']
GAS = GAS + KEY
PT = ['C([Pt])C', 'C([Pt])([Pt])C', 'C([Pt])([Pt])([Pt])C', 'CC', 'CCC', 'CO', 'CCO', 'OC([Pt])C', 'CC([Pt])O', 'OCC([Pt])O',
      'C(=O)([Pt])O', 'C(=O)([Pt])C', 'C([Pt])([Pt])O', 'C([Pt])C([Pt])', 'C([Pt])([Pt])C([Pt])([Pt])', 'O([Pt])C', 'O([Pt])CC',
      'C([Pt])=O', 'OC([Pt])([Pt])C', 'OCCO', 'OC(C)CO', 'C([Pt])([Pt])=O', '[Pt]C([Pt])([Pt])[Pt]', 'OC([Pt])C([Pt])O',
      'CC(=O)O', 'C([Pt])CO', 'CC([Pt])([Pt])O', '[Pt]OCC', 'C(O)([Pt])C(O)[Pt]']
RU = ['C([Ru])C', 'C([Ru])([Ru])C', 'CC', 'CCC', 'C([Ru])([Ru])([Ru])C', 'C([Ru])C([Ru])', 'CCO', 'CC(=O)O', 'C(=O)([Ru])O',
      'CC([Ru])=O', 'O([Ru])C(=O)C', 'CCC(=O)O', 'C([Ru])CC(=O)O', 'OC([Ru])C']
OUTSIDE = ['C[Si](C)(C)C', 'CS', 'C[Au]', 'FC', 'ClCCl', '[He]', 'CB', 'C[Pd]']
# nitrogen heteroaromatics first (the PPY scheme describes them)
PPYL = ['c1ccncc1', 'Cc1cccnc1', 'c1ccc(cc1)c1ccncc1', 'CCN'] + GAS
FAMILY = {'BensonGA': GAS, 'PPY': PPYL, 'GRWAqueous2018': PT, 'GRWSurface2018': PT, 'GuSolventGA2017Aq': PT,
          'GuSolventGA2017Vac': PT, 'PtSurface2023': PT, 'SalciccioliGA2012': PT, 'XieGA2022': RU}

SYNTH = """patterns:
  - center_name: C
    periph_name: C
    connectivity: 'fragment a{ C labeled c1 {connected to =0 O with double bond}}'
  - center_name: CO
    periph_name: CO
    connectivity: 'fragment a{ C labeled c1 O labeled o1 double bond to c1}'
  - center_name: O
    periph_name: O
    connectivity: 'fragment a{ O labeled o1 {connected to >=1 $ with single bond, connected to =0 C with double bond}}'
  - center_name: none
    periph_name: O
    connectivity: 'fragment a{ O labeled o1 C labeled c1 double bond to o1}'
  - center_name: none
    periph_name: H
    connectivity: 'fragment a{ H labeled h1}'
  - center_name: C
    periph_name: C
    connectivity: 'fragment a{ C labeled c1 {connected to >=3 C with single bond}}'
remaps:
  'C(C)(H)3': [[1, 'CH3']]
  'C(H)3(O)': [[0.5, 'CH3'], [2, 'OX']]
  'O(C)(H)': [[1, 'OX']]
  'O(C)2': [[1, 'OX'], [-2, 'CH3']]
  'Ring3': [[0.5, 'Strain'], [0.5, 'C(C)2(H)2']]
other_descriptors:
  - name: Ring3
    connectivity: 'fragment a{ C labeled c1 C labeled c2 single bond to c1 C labeled c3 single bond to c2 ringbond c3 single bond to c1}'
  - name: Pair
    connectivity: 'fragment a{ O labeled o1 C labeled c1 single bond to o1 C labeled c2 single bond to c1}'
  - name: Pair
    connectivity: 'fragment a{ O labeled o1 C labeled c1 double bond to o1 C labeled c2 single bond to c1}'
  - name: Gem
    connectivity: 'fragment a{ C labeled c1 O labeled o1 single bond to c1 O labeled o2 single bond to c1}'
"""
# (the last pattern names the same centre as the first: an atom both describe has no unique description)
SYNTH_MOLS = ['COC', 'COCC', 'CC', 'CO', 'CCO', 'CC=O', 'C1CC1', 'OCO', 'CC(=O)C', 'OC1CC1', 'CCC', 'C=C', 'COC', 'OC(O)C', 'CC(O)CO',
              'CC(C)C', 'CC(C)(C)O']
# (the remap of O(C)2 has a negative coefficient: dimethyl ether nets CH3 = 1 - 2, ethyl methyl ether -1/2)


def check_pairs(ctx, names, scheme_jsons, cases, report):
    """cases: list of (scheme index (1-based), label, input for the implementation, smiles)"""
    graphs, gi = [], {}
    pairs, meta = [], []
    for si, label, inp, smi in cases:
        if smi not in gi:
            g, _ = sl.kekule_graph(smi)
            if g is None:
                continue
            graphs.append(g)
            gi[smi] = len(graphs)
        pairs.append([si, gi[smi]])
        meta.append((si, label, inp, smi))
    res = sl.run_pairs(ctx, scheme_jsons, graphs, pairs)
    out = []
    for (si, label, inp, smi), spec in zip(meta, res):
        name = names[si - 1]
        kind, bag, hm = sl.decompose(name, inp)
        ctx.count('%s|%s' % (name, label))
        out.append((name, label, smi, kind, bag, spec))
        key = '%s|%s' % (os.path.basename(os.path.dirname(name)) if os.sep in name else name, label)
        if not spec['ok']:
            if not (kind == 'error' and bag == spec['cls']):
                report('decompose:' + key, '%s: GetDescriptors(%s) -> %s; the scheme file leaves atom(s) %s without a unique '
                       'centre pattern, so the specification expects %s'
                       % (name, label, sl.show_bag(bag) if kind == 'value' else bag, spec['atoms'], spec['cls']))
            continue
        want = sl.bag_of(spec['bag'])
        if kind == 'error':
            report('decompose:' + key, '%s: GetDescriptors(%s) raised %s; the scheme file declares %s'
                   % (name, label, bag, sl.show_bag(want)))
            continue
        if not sl.same_bag(bag, want):
            report('decompose:' + key, '%s: GetDescriptors(%s) = %s; the scheme file declares %s'
                   % (name, label, sl.show_bag(bag), sl.show_bag(want)))
        if hm is not None and hm.GetNumAtoms() == len(spec['centres']):
            for a in hm.GetAtoms():
                c = spec['centres'][a.GetIdx()]
                got = (a.GetProp('Group_Center_Name') if a.HasProp('Group_Center_Name') else None,
                       a.GetProp('Group_Periph_Name') if a.HasProp('Group_Periph_Name') else None)
                if got != (uncodes(c['c']), uncodes(c['p'])):
                    report('atom:%s:%d' % (key, a.GetIdx()), '%s: %s: atom %d (%s) classified as centre/peripheral %s; '
                           'the scheme file declares %s' % (name, label, a.GetIdx(), a.GetSymbol(), got,
                                                            (uncodes(c['c']), uncodes(c['p']))))
                    break
            arom = sorted(a.GetIdx() + 1 for a in hm.GetAtoms() if a.GetIsAromatic())
            if arom != sorted(spec['arom']):
                report('aromatic:%s' % key, '%s: %s: aromatic atoms %s; specification %s' % (name, label, arom, sorted(spec['arom'])))
    return out


def scheme_set(ctx, thorough, work):
    names = list(sl.SCHEMES) if thorough else ['BensonGA', 'GRWSurface2018', 'XieGA2022', 'PPY']
    d = os.path.join(work, 'synth')
    os.makedirs(d, exist_ok=True)
    p = os.path.join(d, 'scheme.yaml')
    with open(p, 'w') as f:
        f.write(SYNTH)
    names.append(p)
    return names


def run(ctx):
    thorough = ctx.tier == 'thorough'
    rng_ = random.Random(ctx.seed)
    work = tempfile.mkdtemp(prefix='c02_', dir=ctx.scratch)
    names = scheme_set(ctx, thorough, work)
    sj = [sl.scheme_json(n) for n in names]
    cases = []
    for si, n in enumerate(names, 1):
        if os.sep in n:
            mols = SYNTH_MOLS
        else:
            fam = FAMILY[n]
            mols = fam if thorough else (fam[:4] + fam[4 + ctx.seed % 5::5][:6] if fam is PPYL else
                                         fam[ctx.seed % 3::3][:14] + fam[:4] + (KEY if fam is GAS else []))
            mols = list(dict.fromkeys(mols)) + OUTSIDE[:(len(OUTSIDE) if thorough else 3)]
        for smi in mols:
            cases.append((si, smi, smi, smi))
    ctx.log('%d schemes, %d (scheme, molecule) pairs' % (len(names), len(cases)))

    def report(key, what):
        ctx.violation(key, what, {'kind': 'c02', 'key': key})
    out = check_pairs(ctx, names, sj, cases, report)
    nerr = sum(1 for o in out if not o[5]['ok'])
    ctx.extra['pairs'] = len(out)
    ctx.extra['spec_pattern_match_errors'] = nerr
    ctx.extra['schemes'] = [os.path.basename(os.path.dirname(n)) if os.sep in n else n for n in names]
    ok = [o for o in out if o[5]['ok']]
    ctx.sample({'scheme': ok[0][0], 'molecule': ok[0][2], 'declared': sl.show_bag(sl.bag_of(ok[0][5]['bag']))})
    ctx.exhaustive = False
    ctx.assumptions += [
        "the input graph (Kekule form, ring list and order, stereo tags) is RDKit's and is exported by the harness "
        'with the same normalisation calls GetDescriptors makes (an observation, not a prediction)',
        'a name that is both a group and a correction descriptor in one result is summed by the specification',
        'scheme files are read with yaml.safe_load, pattern texts compiled by the TLA+ RING reader']


def replay(ctx, rep):
    run(ctx)
