"""C13 - merging library files is a conflict-checked, order-free union.

Pass A: TLC explores MC_Merge (accumulated-record state machine, merged records
        as action parameters; Atomic, Monotone, WellFormed; theorems
        ConflictIff, Idempotent, Overwrite, ZeroIsAValue, Diamond, DiamondAcc,
        ConflictAnyOrder) and exports every (acc, src, overwrite) transition.
Run   : transitions are replayed on ThermochemIncomplete.update (spec -> code).
Pass B: seeded random update histories and random include trees written to
        disk and loaded with GroupLibrary.Load are validated by Trace_Merge
        (code -> spec).
"""
import itertools
import os
import random
import shutil
import tempfile

from ..common import use_repo, call, codes, uncodes, MachineryError

use_repo()
import pgradd.ThermoChem                                         # noqa: E402,F401
from pgradd.ThermoChem import ThermochemIncomplete, ThermochemGroup   # noqa: E402
from pgradd.GroupAdd.Library import GroupLibrary                 # noqa: E402

T_REF = 298.15
HV = {0: 0.0, 1: -12.5, 5: 3.25}
SV = {0: 0.0, 2: 7.25, 6: -1.5}
CV = {0: 0.0, 3: 3.5, 4: 4.25, 7: -2.0}
TV = {1: 300.0, 2: 500.0, 3: 800.0, 4: 400.0, 5: 600.0, 6: 1000.0}
RV = {0: 250.0, 1: 298.0, 2: 900.0, 3: 1500.0}


def inv(m, x, what):
    for k, v in m.items():
        if x is not None and abs(float(x) - v) <= 1e-12 * max(1.0, abs(v)):
            return k
    raise ValueError('%s value %r is not one of the tokens' % (what, x))


def build(rec, cls=ThermochemIncomplete):
    cp = {TV[t]: CV[v] for t, v in rec['cp']}
    return cls(HV[rec['h'][0]] if rec['h'] else None,
               SV[rec['s'][0]] if rec['s'] else None,
               cp, T_REF,
               (RV[rec['rng'][0]], RV[rec['rng'][1]]) if rec['rng'] else None)


def project(c):
    """ThermochemIncomplete -> record of tokens (raises if a value drifted)"""
    h = c.ND_H_ref
    s = c.ND_S_ref
    rng = c.get_range()
    return {'h': [] if h is None else [inv(HV, h, 'H')],
            's': [] if s is None else [inv(SV, s, 'S')],
            'cp': sorted([inv(TV, t, 'T'), inv(CV, v, 'Cp')]
                         for t, v in (c.ND_Cp_data or {}).items()),
            'rng': [] if rng is None else [inv(RV, rng[0], 'range'),
                                           inv(RV, rng[1], 'range')]}


def norm(rec):
    """TLC JSON record -> harness record (cp as sorted list of [t, v])"""
    cp = rec['cp']
    if isinstance(cp, dict):
        cp = [[int(t), v] for t, v in cp.items()]
    elif cp and not isinstance(cp[0], (list, tuple)):
        cp = [[t + 1, v] for t, v in enumerate(cp)]    # domain 1..n is a sequence for TLC
    return {'h': list(rec['h']), 's': list(rec['s']),
            'cp': sorted([list(x) for x in cp]), 'rng': list(rec['rng'])}


def do_update(acc, src, ow):
    kind, v, _ = call(acc.update, src, ow)
    if kind == 'error':
        return type(v).__name__
    return 'ok'


def show(rec):
    return 'H=%s S=%s Cp=%s range=%s' % (
        [HV[x] for x in rec['h']] or '-', [SV[x] for x in rec['s']] or '-',
        {TV[t]: CV[v] for t, v in rec['cp']} or '-',
        [RV[x] for x in rec['rng']] or '-')


def _stale(c):
    """the correlation answers from the data it holds: every table entry at its temperature, the reference
    values at the reference temperature (None = consistent)"""
    r = c.get_range()
    for t, v in (c.ND_Cp_data or {}).items():
        if r is not None and not (r[0] <= t <= r[1]):
            continue
        k, got, _ = call(c.get_CpoR, t)
        if k == 'error' or abs(float(got) - float(v)) > 1e-9 * max(1.0, abs(float(v))):
            return 'get_CpoR(%g) gives %r, the table says %r' % (t, got, v)
    if r is None or r[0] <= c.T_ref <= r[1]:
        for name, getter, ref in (('H', 'get_HoRT', c.ND_H_ref), ('S', 'get_SoR', c.ND_S_ref)):
            if ref is None:
                continue
            k, got, _ = call(getattr(c, getter), c.T_ref)
            if k == 'error' or abs(float(got) - float(ref)) > 1e-9 * max(1.0, abs(float(ref))):
                return '%s(T_ref) gives %r, the reference value is %r' % (getter, got, ref)
    return None


def _replay_transitions(ctx, recs, trans, stride):
    n = 0
    for (i, j, ow, ok, k) in trans:
        if (i * 7919 + j * 31 + int(ow)) % stride:
            continue
        a, b = recs[i - 1], recs[j - 1]
        n += 1
        ctx.count('%d,%d,%d' % (i, j, ow))
        acc = build(a)
        src = build(b)
        before = project(src)
        err = do_update(acc, src, ow)
        try:
            after = project(acc)
        except ValueError as e:
            after = {'drift': str(e)}
        want_err = 'ok' if ok else 'ReadOnlyDataError'
        want = recs[k - 1]
        stale = _stale(acc) if (err == want_err and after == want) else None
        if stale:
            ctx.violation('stale:%s|%s|%s' % (show(a), show(b), ow),
                          'update(acc: %s ; src: %s ; overwrite=%s) stores %s but %s'
                          % (show(a), show(b), ow, show(after), stale),
                          {'kind': 'trans', 'a': a, 'b': b, 'ow': ow, 'ok': ok, 'want': want})
            continue
        if err != want_err or after != want or project(src) != before:
            zero = (b['h'] == [0] and not a['h']) or (b['s'] == [0] and not a['s'])
            key = 'update:%s|%s|%s' % (show(a), show(b), ow)
            ctx.violation(key,
                          'update(acc: %s ; src: %s ; overwrite=%s) -> %s, %s ; '
                          'spec expects %s, %s%s'
                          % (show(a), show(b), ow, err,
                             show(after) if 'drift' not in after else after,
                             want_err, show(want),
                             ' [source modified]' if project(src) != before else ''),
                          {'kind': 'trans', 'a': a, 'b': b, 'ow': ow,
                           'ok': ok, 'want': want})
    return n


# ------------------------------------------------------------ random histories
def _rand_rec(rng, temps=(1, 2, 3, 4, 5, 6), p_conf=0.0, base=None):
    """a random well-formed record; with `base`, mostly consistent with it"""
    rec = {'h': [], 's': [], 'cp': [], 'rng': []}
    def pick(m, cur):
        if cur and rng.random() >= p_conf:
            return cur[0]
        return rng.choice(list(m))
    if rng.random() < .5:
        rec['h'] = [pick(HV, base and base['h'])]
    if rng.random() < .5:
        rec['s'] = [pick(SV, base and base['s'])]
    bcp = dict(map(tuple, base['cp'])) if base else {}
    for t in temps:
        if rng.random() < .35:
            rec['cp'].append([t, pick(CV, [bcp[t]] if t in bcp else None)])
    if rec['cp'] or rng.random() < .3:
        rec['rng'] = rng.choice([[1, 2], [0, 3], [1, 3], [0, 2]])
        hi = max([TV[t] for t, _ in rec['cp']] + [0])
        if hi > RV[rec['rng'][1]]:
            rec['rng'][1] = 3
    rec['cp'].sort()
    return rec


def _union(a, b):
    cp = dict(map(tuple, a['cp']))
    cp.update(dict(map(tuple, b['cp'])))
    return {'h': b['h'] or a['h'], 's': b['s'] or a['s'],
            'cp': sorted([t, v] for t, v in cp.items()),
            'rng': ([min(a['rng'][0], b['rng'][0]), max(a['rng'][1], b['rng'][1])]
                    if a['rng'] and b['rng'] else (a['rng'] or b['rng']))}


def _corr_trace(rng, n):
    full = _rand_rec(rng)
    a = _rand_rec(rng, base=full)
    acc = build(a, ThermochemGroup)
    evs = [{'op': 'init', 'rec': a}]
    for _ in range(n):
        src_rec = _rand_rec(rng, p_conf=0.15, base=full)
        ow = rng.random() < .25
        src = build(src_rec, ThermochemGroup)
        err = do_update(acc, src, ow)
        try:
            st = project(acc)
        except ValueError as e:
            st = {'h': [99], 's': [], 'cp': [], 'rng': [], 'drift': str(e)}
        evs.append({'op': 'update', 'src': src_rec, 'ow': ow, 'err': err,
                    'state': {k: st[k] for k in ('h', 's', 'cp', 'rng')}})
        if ow and err == 'ok':
            full = _union(full, src_rec)
    return evs


SPELLINGS = {
    'C(C)(H)3': ['C(C)(H)3', 'C(H)3(C)', 'C(H)(C)(H)2', 'C(H)2(C)(H)'],
    'C(C)2(H)2': ['C(C)2(H)2', 'C(H)2(C)2', 'C(C)(H)(C)(H)', 'C(H)(C)2(H)'],
    'O(C)(H)': ['O(C)(H)', 'O(H)(C)'],
    'CO(C)(O)': ['CO(C)(O)', 'CO(O)(C)'],
}


def _yaml_group(name, rec):
    lines = ['  %r:' % name, '    thermochem:', '      T_ref: %r K' % T_REF]
    if rec['h']:
        lines.append('      ND_H_ref: %r' % HV[rec['h'][0]])
    if rec['s']:
        lines.append('      ND_S_ref: %r' % SV[rec['s'][0]])
    if rec['cp']:
        lines.append('      ND_Cp_data:')
        for t, v in rec['cp']:
            lines.append('        - [%r K, %r]' % (TV[t], CV[v]))
    if rec['rng']:
        lines.append('      range: [%r K, %r K]' % (RV[rec['rng'][0]], RV[rec['rng'][1]]))
    return lines


def _write_tree(d, tree, counter):
    """writes the file for `tree`, returns its file name"""
    k = counter[0]
    counter[0] += 1
    name = 'library.yaml' if k == 0 else 'part%d.yaml' % k
    inc = [_write_tree(d, t, counter) for t in tree['includes']]
    lines = []
    if inc:
        lines.append('include:')
        lines += ['  - %s' % x for x in inc]
    lines.append('groups:')
    for g in tree['groups']:
        lines += _yaml_group(uncodes(g['name']), g['rec'])
    if not tree['groups']:
        lines[-1] = 'groups: {}'
    with open(os.path.join(d, name), 'w') as f:
        f.write('\n'.join(lines) + '\n')
    return name


def _split(rng, rec, nparts):
    """split the data of `rec` over nparts records (each datum in >= 1 part)"""
    parts = [{'h': [], 's': [], 'cp': [], 'rng': []} for _ in range(nparts)]
    def some():
        k = rng.randint(1, 2 if nparts > 1 else 1)
        return rng.sample(range(nparts), k)
    if rec['h']:
        for p in some():
            parts[p]['h'] = list(rec['h'])
    if rec['s']:
        for p in some():
            parts[p]['s'] = list(rec['s'])
    for t, v in rec['cp']:
        for p in some():
            parts[p]['cp'].append([t, v])
    for p in parts:
        p['cp'].sort()
        if p['cp'] or (rec['rng'] and rng.random() < .4):
            p['rng'] = list(rec['rng'])
    return parts


def _load_trace(rng, workdir):
    groups = rng.sample(sorted(SPELLINGS), rng.randint(1, 3))
    nfiles = rng.randint(1, 4)
    files = [{'groups': [], 'includes': []} for _ in range(nfiles)]
    mode = rng.random()
    for g in groups:
        full = _rand_rec(rng)
        parts = _split(rng, full, nfiles)
        for f, p in zip(files, parts):
            if p['h'] or p['s'] or p['cp'] or p['rng'] or rng.random() < .2:
                f['groups'].append({'name': codes(rng.choice(SPELLINGS[g])), 'rec': p})
    if mode < .2:        # inject a conflict
        cands = [(f, g) for f in files for g in f['groups'] if g['rec']['h'] or g['rec']['cp']]
        if cands:
            f, g = rng.choice(cands)
            if g['rec']['h']:
                g['rec']['h'] = [rng.choice([x for x in HV if x != g['rec']['h'][0]])]
            else:
                g['rec']['cp'][0][1] = rng.choice([x for x in CV if x != g['rec']['cp'][0][1]])
    elif mode < .3:      # inject a duplicate spelling in one file
        cands = [(f, g) for f in files for g in f['groups']]
        if cands:
            f, g = rng.choice(cands)
            key = [k for k, v in SPELLINGS.items() if uncodes(g['name']) in v][0]
            other = [s for s in SPELLINGS[key] if s != uncodes(g['name'])]
            f['groups'].append({'name': codes(rng.choice(other)),
                                'rec': _rand_rec(rng)})
    for f in files:
        rng.shuffle(f['groups'])
    # random nesting: file k is included by some earlier file
    order = list(range(nfiles))
    rng.shuffle(order)
    root = files[order[0]]
    placed = [root]
    for k in order[1:]:
        parent = rng.choice(placed)
        parent['includes'].insert(rng.randint(0, len(parent['includes'])), files[k])
        placed.append(files[k])
    d = tempfile.mkdtemp(prefix='tree_', dir=workdir)
    with open(os.path.join(d, 'scheme.yaml'), 'w') as f:
        f.write('patterns: []\n')
    _write_tree(d, root, [0])
    kind, lib, _ = call(GroupLibrary.Load, os.path.join(d, 'library.yaml'))
    ev = {'op': 'load', 'tree': root}
    if kind == 'error':
        ev.update({'ok': False, 'err': type(lib).__name__, 'lib': []})
    else:
        out = []
        for g in lib:
            try:
                out.append({'key': codes(str(g)), 'rec': project(lib[g]['thermochem'])})
            except ValueError as e:
                out.append({'key': codes(str(g)),
                            'rec': {'h': [99], 's': [], 'cp': [], 'rng': []}})
        ev.update({'ok': True, 'err': '', 'lib': out})
    shutil.rmtree(d, ignore_errors=True)
    return [ev]


def _logged(lib):
    out = []
    for g in lib:
        try:
            out.append({'key': codes(str(g)), 'rec': project(lib[g]['thermochem'])})
        except ValueError:
            out.append({'key': codes(str(g)), 'rec': {'h': [99], 's': [], 'cp': [], 'rng': []}})
    return out


def _lib_trace(rng, workdir):
    """a loaded library and a few others merged into it with Update, the same one possibly more than once,
    with and without overwriting"""
    groups = rng.sample(sorted(SPELLINGS), rng.randint(2, 3))
    nlibs = rng.randint(2, 3)
    files = []
    for k in range(nlibs + 1):
        f = {'groups': [], 'includes': []}
        for g in groups:
            if rng.random() < .75:
                f['groups'].append({'name': codes(rng.choice(SPELLINGS[g])), 'rec': _rand_rec(rng)})
        rng.shuffle(f['groups'])
        files.append(f)
    libs = []
    for k, f in enumerate(files):
        d = tempfile.mkdtemp(prefix='lib%d_' % k, dir=workdir)
        with open(os.path.join(d, 'scheme.yaml'), 'w') as fh:
            fh.write('patterns: []\n')
        _write_tree(d, f, [0])
        kind, lib, _ = call(GroupLibrary.Load, os.path.join(d, 'library.yaml'))
        if kind == 'error':
            raise MachineryError('scratch library does not load: %r' % lib)
        libs.append(lib)
    base = libs[0]
    evs = [{'op': 'libinit', 'tree': files[0], 'lib': _logged(base)}]
    for _ in range(rng.randint(2, 5)):
        k = rng.randint(1, nlibs)
        ow = rng.random() < .5
        kind, v, _ = call(base.Update, libs[k], ow)
        evs.append({'op': 'libupdate', 'tree': files[k], 'ow': ow, 'ok': kind != 'error',
                    'err': type(v).__name__ if kind == 'error' else '', 'lib': _logged(base), '_k': k})
        if kind == 'error':
            break
    return evs


def _show_tree(t, ind=0):
    s = ' ' * ind + 'file{' + ', '.join('%s: %s' % (uncodes(g['name']), show(g['rec']))
                                        for g in t['groups']) + '}'
    for c in t['includes']:
        s += '\n' + _show_tree(c, ind + 2)
    return s


def _validate(ctx, traces, label):
    out, r = ctx.tlc_json('Trace_Merge', 'Trace_Merge.cfg', {'traces': traces})
    if not out.get('done'):
        raise MachineryError('Trace_Merge did not finish')
    ctx.traces += len(traces)
    for b in out['bad']:
        tr = traces[b['tid'] - 1]
        ev = tr[b['i'] - 1]
        if ev['op'] == 'load':
            what = ('%s: Load of include tree\n%s\n -> %s ; spec expects %s'
                    % (label, _show_tree(ev['tree']),
                       ('ok ' + '; '.join('%s: %s' % (uncodes(x['key']), show(x['rec']) if 99 not in x['rec']['h'] else 'non-token value')
                                          for x in ev['lib'])) if ev['ok'] else ev['err'],
                       b['exp']))
            key = 'load:' + _show_tree(ev['tree'])
        elif ev['op'] in ('libinit', 'libupdate'):
            hist = ' ; '.join('Load(lib0)' if e['op'] == 'libinit' else 'Update(lib%d%s)' % (e['_k'], ', overwrite=True' if e['ow'] else '')
                              for e in tr[:b['i']])
            files = {0: tr[0]['tree']}
            for e in tr[1:b['i']]:
                files[e['_k']] = e['tree']
            what = ('%s: %s -> %s %s ; spec expects %s\n%s'
                    % (label, hist, 'ok' if ev.get('ok', True) else ev.get('err'),
                       '; '.join('%s: %s' % (uncodes(x['key']), show(x['rec']) if 99 not in x['rec']['h'] else 'non-token value')
                                 for x in ev['lib']), b['exp'],
                       '\n'.join('lib%d = %s' % (k, _show_tree(t)) for k, t in sorted(files.items()))))
            key = 'libupdate:' + hist + '|' + '|'.join(_show_tree(t) for _, t in sorted(files.items()))
        else:
            prev = [e for e in tr[:b['i'] - 1]][-1]
            pstate = prev.get('state') or prev.get('rec')
            what = ('%s: acc (%s) update(%s, overwrite=%s) -> %s, %s ; spec expects %s'
                    % (label, show(pstate), show(ev['src']), ev['ow'], ev['err'],
                       show(ev['state']) if 99 not in ev['state']['h'] else 'non-token value',
                       b['exp']))
            key = 'update:%s|%s|%s' % (show(pstate), show(ev['src']), ev['ow'])
        ctx.violation(key, what, {'kind': 'trace', 'trace': tr[:b['i']]})
    return out


def run(ctx):
    thorough = ctx.tier == 'thorough'
    cfg = 'MC_Merge_t.cfg' if thorough else 'MC_Merge_q.cfg'
    nsh = 1 if thorough else 4
    vout = os.path.join(ctx.scratch, 'merge_export.json')
    r = ctx.tlc('MC_Merge', cfg, env={'VOUT': vout, 'SHARD': ctx.seed % nsh,
                                      'NSHARD': nsh}, workers=16, timeout=6000)
    import json
    with open(vout) as f:
        exp = json.load(f)
    os.unlink(vout)
    recs = [norm(x) for x in exp['recs']]
    trans = exp['trans']
    ctx.extra['mc'] = {'cfg': cfg, 'records': len(recs), 'distinct_states': r.distinct,
                       'transitions': r.generated, 'exported_transitions': len(trans)}
    ctx.log('MC_Merge: %d states, %d transitions; %d exported'
            % (r.distinct, r.generated, len(trans)))
    n = _replay_transitions(ctx, recs, trans, 1 if thorough else 3)
    ctx.extra['transitions_replayed'] = n
    ctx.sample({'transition': 'acc(%s) + src(%s)' % (show(recs[len(recs) // 3]),
                                                    show(recs[len(recs) // 2]))})
    rng = random.Random(ctx.seed)
    ntr, nload = (600, 1500) if thorough else (120, 250)
    traces = [_corr_trace(rng, rng.randint(2, 8)) for _ in range(ntr)]
    workdir = tempfile.mkdtemp(prefix='trees_', dir=ctx.scratch)
    traces += [_load_trace(rng, workdir) for _ in range(nload)]
    traces += [_lib_trace(rng, workdir) for _ in range(400 if thorough else 80)]
    for tr in traces:
        for ev in tr:
            ctx.count()
    lt = [t for t in traces if t[0]['op'] == 'load']
    ctx.sample({'include_tree': _show_tree(lt[0][0]['tree']),
                'loaded_ok': lt[0][0]['ok']})
    ctx.extra['load_outcomes'] = {
        'ok': sum(1 for t in lt if t[0]['ok']),
        'ReadOnlyDataError': sum(1 for t in lt if t[0]['err'] == 'ReadOnlyDataError'),
        'KeyError': sum(1 for t in lt if t[0]['err'] == 'KeyError')}
    # validate in chunks (in parallel TLC processes is not needed: ~10k events/s)
    for k in range(0, len(traces), 400):
        _validate(ctx, traces[k:k + 400], 'random')
    # correlations whose reference temperatures differ (MergeT.tla)
    from .. import mergetlib

    def report(key, what):
        ctx.violation(key, what, {'kind': 'tref', 'key': key})
    mergetlib.check(ctx, report)
    ctx.exhaustive = True
    ctx.assumptions += [
        'differing reference temperatures: Cp tables are samples of one polynomial per pair (exact closed forms); '
        'a translated value is compared at 1e-9 (H) / 5e-7 (S); pairs whose values would agree only up to rounding '
        'are not generated (reference values are chosen so that a translated value never equals the target\'s)',
        'in Merge.tla and its traces all files share one reference temperature; values are '
        'tokens mapped to dyadic floats, reference values compared at 1e-12',
        'identical spellings repeated in one YAML mapping are resolved by the '
        'YAML reader before pgradd sees them: only different spellings are generated']


def replay(ctx, rep):
    c = rep['case']
    if c['kind'] == 'trans':
        recs = [c['a'], c['b'], c['want']]
        _replay_transitions(ctx, recs, [(1, 2, c['ow'], c['ok'], 3)], 1)
    else:
        tr = c['trace']
        if tr[0]['op'] == 'load':
            # re-run the load
            wd = tempfile.mkdtemp(prefix='trees_', dir=ctx.scratch)
            d = tempfile.mkdtemp(prefix='tree_', dir=wd)
            with open(os.path.join(d, 'scheme.yaml'), 'w') as f:
                f.write('patterns: []\n')
            _write_tree(d, tr[0]['tree'], [0])
            kind, lib, _ = call(GroupLibrary.Load, os.path.join(d, 'library.yaml'))
            ev = {'op': 'load', 'tree': tr[0]['tree']}
            if kind == 'error':
                ev.update({'ok': False, 'err': type(lib).__name__, 'lib': []})
            else:
                ev.update({'ok': True, 'err': '', 'lib': [
                    {'key': codes(str(g)), 'rec': project(lib[g]['thermochem'])}
                    for g in lib]})
            _validate(ctx, [[ev]], 'replay')
        else:
            acc = build(tr[0]['rec'], ThermochemGroup)
            evs = [tr[0]]
            for ev in tr[1:]:
                err = do_update(acc, build(ev['src'], ThermochemGroup), ev['ow'])
                e2 = dict(ev)
                e2['err'] = err
                e2['state'] = project(acc)
                evs.append(e2)
            _validate(ctx, [evs], 'replay')
