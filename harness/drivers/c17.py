"""C17 - a generated network is the duplicate-free closure of its seeds.

Pass A: TLC checks MC_Network: for ALL successor relations on a small species
        set and all duplicate-free seed lists, the work-list machine of
        Network.tla stays inside the closure (Within), ends with exactly the
        closure and no species twice (Complete, NoDupInv) and terminates
        (Terminates, under weak fairness).  The variant with the code's original
        duplicate check (processed only) is run too and must show the duplicate.
Pass B: for seed sets x rule sets (reaction SMARTS and RING text) the harness
        computes the successor relation independently (each rule on each
        reachable species alone, valence filter, canonical SMILES identity) and
        its breadth-first closure; GenerateRxnNet runs with hook H2 recording
        pop / rule / push / skip; Trace_Network consumes the events with the
        actions of Network.tla and checks the returned list = closure, no
        duplicates.
"""
import itertools
import random

from rdkit import Chem
from rdkit.Chem.AllChem import ReactionFromSmarts
from rdkit.Chem.rdchem import GetPeriodicTable

from ..common import use_repo, call, MachineryError

use_repo()
from pgradd.RDkitWrapper import GenRxnNet as G            # noqa: E402
from pgradd.RINGParser import Read                        # noqa: E402

RING_CH = ("rule CH{ reactant r1{ C labeled c1 H labeled h1 single bond to c1 } "
           "increase number of radical (c1) increase number of radical (h1) break bond(c1,h1) }")
RING_CC = ("rule CC{ reactant r1{ C labeled c1 C labeled c2 single bond to c1 } "
           "increase number of radical (c1) increase number of radical (c2) break bond(c1,c2) }")
RING_OH = ("rule OH{ reactant r1{ O labeled o1 H labeled h1 single bond to o1 } "
           "increase number of radical (o1) increase number of radical (h1) break bond(o1,h1) }")
RING_DB = ("rule DB{ reactant r1{ C labeled c1 C labeled c2 double bond to c1 } "
           "increase number of radical (c1) increase number of radical (c2) decrease bond order (c1,c2) }")
RING_CCDEC = ("rule CCD{ reactant r1{ C labeled c1 C labeled c2 single bond to c1 } "
              "increase number of radical (c1) increase number of radical (c2) decrease bond order (c1,c2) }")
RULES = {
    'CH-scission': '[C:1][H:2]>>[C:1].[H:2]',
    'CC-scission': '[C:1][C:2]>>[C:1].[C:2]',
    'OH-scission': '[O:1][H:2]>>[O:1].[H:2]',
    'CO-scission': '[C:1][O:2]>>[C:1].[O:2]',
    'C=C-to-C-C': '[C:1]=[C:2]>>[C:1][C:2]',
    'C-C-to-C=C': '[C:1][C:2]>>[C:1]=[C:2]',      # most of its products are over-valent and must be filtered one by one
    # two product fragments, the first of which is over-valent on a saturated carbon
    'beta-CCO': '[C:1][C:2][O:3]>>[C:1]=[C:2].[O:3]',
    'ring:CH-scission': RING_CH, 'ring:CC-scission': RING_CC, 'ring:OH-scission': RING_OH,
    'ring:C=C-decrease': RING_DB, 'ring:C-C-decrease': RING_CCDEC,
}
SEEDS = ['C', 'CC', 'C=C', 'CO', '[CH3]', 'C[CH2]', 'CCC', 'CCO', 'O', 'C#C']


def prep_seed(smi):
    """the documented preparation of a seed (sanitise, explicit H, radicals)"""
    m = Chem.MolFromSmiles(smi, sanitize=False)
    G._sanitize_except_aromatization(m)
    m = Chem.AddHs(m)
    G._sanitize_except_aromatization(m)
    for a in m.GetAtoms():
        a.SetNoImplicit(True)
    Chem.AssignRadicals(m)
    return m


def ident(m):
    return Chem.MolToSmiles(m)


def valence_ok(m):
    """own valence filter: sum of bond orders of every atom <= default valence"""
    pt = GetPeriodicTable()
    for a in m.GetAtoms():
        tot = sum(b.GetBondTypeAsDouble() for b in a.GetBonds())
        if tot > pt.GetDefaultValence(a.GetAtomicNum()) + 1e-9:
            return False
    return True


def successors(rule, m):
    """products of one rule on one species alone (independent of the generator)"""
    kind, out, _ = call(rule.RunReactants, (m,))
    if kind == 'error':
        raise MachineryError('rule failed on %s: %r' % (ident(m), out))
    prods = []
    for ps in out:
        for p in ps:
            for a in p.GetAtoms():
                a.SetNoImplicit(True)
                a.UpdatePropertyCache(strict=False)
            Chem.AssignRadicals(p)
            prods.append(p)
    seen, res = set(), []
    for p in prods:
        if not valence_ok(p):
            continue
        k = ident(p)
        if k not in seen:
            seen.add(k)
            res.append(p)
    return res


def make_rule(text):
    if text.startswith('rule '):
        return Read(text)
    return ReactionFromSmarts(text)


def one_run(seed_smiles, rule_names, limit=400):
    rules = [make_rule(RULES[n]) for n in rule_names]
    seeds = [prep_seed(s) for s in seed_smiles]
    ids, mols = {}, []

    def sid(m):
        k = ident(m)
        if k not in ids:
            ids[k] = len(mols) + 1
            mols.append(m)
        return ids[k]
    seed_ids = [sid(m) for m in seeds]
    succ = {}
    frontier = list(seed_ids)
    while frontier:
        s = frontier.pop(0)
        if s in succ:
            continue
        succ[s] = []
        for r in rules:
            ps = [sid(p) for p in successors(r, mols[s - 1])]
            succ[s].append(ps)
            frontier += [p for p in ps if p not in succ]
        if len(mols) > limit:
            return None
    n = len(mols)
    succ_tab = [[succ[s][r] for s in range(1, n + 1)] for r in range(len(rules))]
    # run the generator with the hook on
    del G._verif_events[:]
    kind, net, _ = call(G.GenerateRxnNet, list(seed_smiles), [RULES[n_] for n_ in rule_names])
    events = []
    for ev, m in list(G._verif_events):
        if ev == 'rule':
            events.append({'ev': 'rule', 'sp': 0})
        else:
            events.append({'ev': ev, 'sp': ids.get(ident(m), 0)})
    if kind == 'error':
        return {'error': '%s: %s' % (type(net).__name__, str(net)[:100]), 'species': list(ids)}
    result = []
    split = [Chem.MolToSmiles(m) for m in net if len(Chem.GetMolFrags(m)) > 1]
    for m in net:
        mh = Chem.AddHs(m)
        for a in mh.GetAtoms():
            a.SetNoImplicit(True)
        result.append(ids.get(ident(mh), 0))
    events.append({'ev': 'result', 'sp': 0, 'list': result})
    for e in events:
        e.setdefault('list', [])
    return {'seeds': seed_ids, 'succ': succ_tab, 'nrules': len(rules), 'events': events,
            'species': list(ids), 'net': [Chem.MolToSmiles(m) for m in net], 'split': split}


def run(ctx):
    thorough = ctx.tier == 'thorough'
    cfg = 'MC_Network_t.cfg' if thorough else 'MC_Network_q.cfg'
    r1 = ctx.tlc('MC_Network', cfg, workers=16, timeout=6000)
    if thorough:
        # other small worlds (species x rules x products per step); one with four species and two
        # products per step does not finish (> 85 million states in 20 minutes)
        for extra in ('MC_Network_q.cfg', 'MC_Network_t2.cfg', 'MC_Network_t3.cfg', 'MC_Network_t4.cfg'):
            rx = ctx.tlc('MC_Network', extra, workers=16, timeout=6000)
            ctx.log('MC_Network %s: %d states' % (extra, rx.distinct))
    ctx.log('MC_Network: %d states, %d transitions; Within, Complete, NoDupInv, Terminates hold'
            % (r1.distinct, r1.generated))
    r2 = ctx.tlc('MC_Network', 'MC_Network_dev.cfg', workers=1, expect_violation=True, count=False)
    ctx.extra['mc'] = {'cfg': cfg, 'states': r1.distinct, 'transitions': r1.generated,
                       'deviation_variant_violates': r2.violated}
    if r2.violated != 'NoDupInv':
        raise MachineryError('the processed-only variant should violate NoDupInv (got %r)' % r2.violated)
    rng_ = random.Random(ctx.seed)
    names = sorted(RULES)
    combos = []
    for s in SEEDS[:6] if not thorough else SEEDS:
        combos.append(([s], ['CH-scission', 'CC-scission']))
        combos.append(([s], ['ring:CH-scission']))
    combos.append((['CC'], ['CH-scission', 'CC-scission']))          # the docstring's example
    combos.append((['CC', '[CH3]'], ['CC-scission']))                # a seed that is also a product
    combos.append((['C', 'CC'], ['ring:CH-scission', 'ring:CC-scission']))
    combos.append((['C=C'], ['C=C-to-C-C', 'CH-scission']))
    combos.append((['CO'], ['OH-scission', 'CO-scission', 'CH-scission']))
    combos.append((['CCO'], ['ring:OH-scission', 'ring:CC-scission']))
    # a rule that takes a single bond away by lowering its order: its products are two species
    combos.append((['CC'], ['ring:C-C-decrease']))
    combos.append((['CCO'], ['ring:C-C-decrease', 'ring:OH-scission']))
    # a seed that is a radical of an earlier seed, with rules that do not regenerate it from the parent
    combos.append((['CC', 'C[CH2]'], ['CC-scission']))
    combos.append((['C[CH2]', 'CC'], ['CC-scission']))
    # a later seed that the network reaches from an earlier one
    combos.append((['CC', 'C[CH2]'], ['CH-scission']))
    combos.append((['CC', 'C=C'], ['CH-scission', 'C-C-to-C=C']))
    combos.append((['CO', '[CH2]O', 'C[O]'], ['CH-scission', 'OH-scission']))
    combos.append((['C', '[CH3]'], ['ring:CC-scission']))
    combos.append((['CO', 'C[O]'], ['CC-scission', 'C=C-to-C-C']))
    combos.append((['C=C', '[CH]=C'], ['CC-scission']))
    # valid and over-valent products of one rule application, in both orders
    combos.append((['[CH2][CH]C'], ['C-C-to-C=C']))
    combos.append((['C[CH][CH2]'], ['C-C-to-C=C']))
    combos.append((['[CH2][CH]C', 'CC'], ['C-C-to-C=C', 'CC-scission']))
    combos.append((['[CH2]C[CH2]'], ['C-C-to-C=C', 'C=C-to-C-C']))
    # an over-valent fragment written before a valid one that no other route makes
    combos.append((['CCO'], ['beta-CCO']))
    combos.append((['[CH2]CO', 'CCO'], ['beta-CCO']))
    for _ in range(60 if thorough else 10):
        seeds = rng_.sample(SEEDS[:8], rng_.choice([1, 1, 2]))
        rules = rng_.sample(names, rng_.choice([1, 2, 3]))
        combos.append((seeds, rules))
    runs, meta = [], []
    for seeds, rules in combos:
        if 'CCC' in seeds and len(rules) > 1 and not thorough:
            continue
        ctx.count('%s|%s' % (seeds, rules))
        r = one_run(seeds, rules)
        if r is None:
            continue
        if 'error' in r:
            ctx.violation('generator-error:%s|%s' % (seeds, rules),
                          'GenerateRxnNet(%s, %s) raised %s' % (seeds, rules, r['error']),
                          {'kind': 'run', 'seeds': seeds, 'rules': rules})
            continue
        if r['split']:
            ctx.violation('species-not-one-molecule:%s|%s' % (seeds, rules),
                          'GenerateRxnNet(%s, %s) lists %s as one species: the products of a rule application are its '
                          'connected fragments' % (seeds, rules, r['split'][:3]), {'kind': 'run', 'seeds': seeds, 'rules': rules})
            continue
        runs.append({k: r[k] for k in ('seeds', 'succ', 'nrules', 'events')})
        meta.append((seeds, rules, r))
    out, rr = ctx.tlc_json('Trace_Network', 'Trace_Network.cfg', {'runs': runs})
    if not out.get('done'):
        raise MachineryError('Trace_Network did not finish')
    ctx.traces += len(runs)
    for b in out['bad']:
        seeds, rules, r = meta[b['run'] - 1]
        ev = runs[b['run'] - 1]['events'][b['pos'] - 1]
        sp = r['species']

        def nm(i):
            return sp[i - 1] if 0 < i <= len(sp) else '<unknown species>'
        what = ('GenerateRxnNet(%s, %s): event %d %s %s is not a step of the work-list machine '
                '(current %s, pending %s, processed %s, unprocessed %s); returned %s'
                % (seeds, rules, b['pos'], ev['ev'],
                   nm(ev['sp']) if ev['ev'] != 'result' else [nm(i) for i in ev['list']],
                   nm(b['cur']), [nm(i) for i in b['pend']], [nm(i) for i in b['proc']],
                   [nm(i) for i in b['unproc']], r['net']))
        ctx.violation('network:%s|%s:%s' % (seeds, rules, ev['ev']), what,
                      {'kind': 'run', 'seeds': seeds, 'rules': rules})
    ctx.extra['runs'] = len(runs)
    ctx.extra['events'] = sum(len(r['events']) for r in runs)
    ctx.extra['largest_network'] = max(len(m[2]['species']) for m in meta) if meta else 0
    ctx.sample({'seeds': meta[0][0], 'rules': meta[0][1], 'network': meta[0][2]['net']})
    ctx.exhaustive = True
    ctx.assumptions += [
        'species identity = canonical SMILES with explicit hydrogens and radicals (the generator '
        'uses a substructure-based comparison; both agree on the species generated here)',
        'the successor relation is computed by running each rule on each species alone with the '
        "implementation's rule runner; the valence filter is re-implemented (sum of bond orders)"]


def replay(ctx, rep):
    c = rep['case']
    r = one_run(c['seeds'], c['rules'])
    out, rr = ctx.tlc_json('Trace_Network', 'Trace_Network.cfg',
                           {'runs': [{k: r[k] for k in ('seeds', 'succ', 'nrules', 'events')}]})
    for b in out['bad']:
        ctx.violation('network:%s|%s' % (c['seeds'], c['rules']), 'still rejected', c)
