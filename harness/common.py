"""Shared machinery of the /verif checks.

A check is a driver module `harness.drivers.cXX` exposing `run(ctx)`; this
module provides the context object (`Ctx`): scratch directory, TLC runner,
JSON exchange with TLC, violation / known-finding bookkeeping, and the
evidence writer.  Exit codes: 0 = held on everything explored, 1 = violation
(not listed as known finding), 2 = machinery failure.
"""
import contextlib
import io
import json
import os
import random
import re
import shutil
import subprocess
import sys
import tempfile
import time
import warnings

VERIF = os.path.dirname(os.path.dirname(os.path.abspath(__file__)))
SPEC = os.path.join(VERIF, 'spec')
REPO = os.environ.get('PGRADD_REPO', '/repo')
TLA_JAR = '/opt/veriftools/tla/tla2tools.jar'
CM_JAR = '/opt/veriftools/tla/CommunityModules-deps.jar'
NCPU = os.cpu_count() or 4


class Budget(BaseException):
    """execution budget of one implementation call exhausted (raised from a timer / tracer)"""


class MachineryError(Exception):
    """The verification machinery itself failed (never a verdict)."""


def use_repo():
    """Make `import pgradd` resolve to the tree under test."""
    if sys.path[0] != REPO:
        sys.path.insert(0, REPO)
    os.environ.setdefault('PGRADD_VERIF', '1')
    try:
        from rdkit import RDLogger
        RDLogger.DisableLog('rdApp.*')
    except Exception:
        pass


@contextlib.contextmanager
def quiet():
    """Swallow the implementation's stdout chatter (debug prints in
    FundamentalUnits) so that it can neither forge nor hide a verdict line."""
    old = sys.stdout
    sys.stdout = io.StringIO()
    try:
        yield
    finally:
        sys.stdout = old


def call(fn, *a, **k):
    """Run `fn` on the implementation; returns (kind, payload, warnings)
    where kind is 'value' or 'error' (payload = exception class name)."""
    with warnings.catch_warnings(record=True) as w:
        warnings.simplefilter('always')
        with quiet():
            try:
                v = fn(*a, **k)
                kind = 'value'
            except BaseException as e:   # noqa: we classify everything
                if isinstance(e, (KeyboardInterrupt, SystemExit, Budget)):
                    raise
                v = e
                kind = 'error'
    wn = sorted(set(type(x.message).__name__ for x in w))
    return kind, v, wn


def codes(s):
    return [ord(c) for c in s]


def uncodes(a):
    return ''.join(chr(c) for c in a)


def jsonable(x):
    """Refuse anything the TLC JSON bridge would silently mangle."""
    if isinstance(x, bool) or isinstance(x, str):
        return x
    if isinstance(x, int):
        if abs(x) >= 2**31:
            raise MachineryError('int too large for TLC: %r' % x)
        return x
    if isinstance(x, (list, tuple)):
        return [jsonable(y) for y in x]
    if isinstance(x, dict):
        return {str(k): jsonable(v) for k, v in x.items()}
    raise MachineryError('value not representable for TLC: %r' % (x,))


_STATS = re.compile(r'(\d+) states generated, (\d+) distinct states found')
_SIMSTATS = re.compile(r'(\d+) states checked')


class TlcResult(object):
    def __init__(self, rc, out, wall):
        self.rc = rc
        self.out = out
        self.wall = wall
        self.generated = 0
        self.distinct = 0
        for m in _STATS.finditer(out):
            self.generated = int(m.group(1))
            self.distinct = int(m.group(2))
        m = None
        for m in _SIMSTATS.finditer(out):
            pass
        if m and not self.generated:
            self.generated = self.distinct = int(m.group(1))
        self.violated = None
        m = re.search(r'Invariant (\S+) is violated', out)
        if m:
            self.violated = m.group(1)
        m2 = re.search(r'Action property (\S+) is violated|'
                       r'Temporal properties were violated', out)
        if m2 and not self.violated:
            self.violated = m2.group(1) or 'temporal'
        self.error = ('Error:' in out) and not self.violated

    def coverage(self):
        """Per-action counts from -coverage output: {action: (distinct, taken)}"""
        cov = {}
        for m in re.finditer(
                r'<(\w+) line \d+, col \d+ to line \d+, col \d+ of module '
                r'(\w+)>: (\d+):(\d+)', self.out):
            cov[m.group(1)] = (int(m.group(3)), int(m.group(4)))
        return cov


class Ctx(object):
    def __init__(self, prop, tier, seed):
        self.prop = prop
        self.tier = tier
        self.seed = seed
        self.rng = random.Random(seed)
        self.t0 = time.time()
        self.scratch = tempfile.mkdtemp(prefix='verif_%s_' % prop)
        self.states = 0
        self.transitions = 0
        self.traces = 0
        self.evaluations = 0
        self.distinct = set()
        self.samples = []
        self.violations = []      # unlisted
        self.known_hit = []
        self.assumptions = []
        self.extra = {}
        self.exhaustive = False
        self.notes = []
        self._kf = self._load_kf()
        self._nrep = 0

    # ---------------- bookkeeping ----------------
    def _load_kf(self):
        p = os.path.join(VERIF, 'known_findings.json')
        if not os.path.exists(p):
            return []
        with open(p) as f:
            data = json.load(f)
        return [e for e in data.get('findings', [])
                if e.get('property') == self.prop and e.get('status') == 'known']

    def sample(self, x, cap=8):
        if len(self.samples) < cap:
            self.samples.append(x)

    def count(self, key=None, n=1):
        """count one evaluated case; `key` identifies a distinct
        non-trivial case (None = trivial / not counted as distinct)."""
        self.evaluations += n
        if key is not None:
            self.distinct.add(key if isinstance(key, (str, int, tuple))
                              else json.dumps(key, sort_keys=True))

    def log(self, *a):
        print('[%s %s %.1fs]' % (self.prop, self.tier, time.time() - self.t0),
              *a, flush=True)

    def violation(self, key, what, case):
        """Report a property violation found on the implementation (or on
        the spec).  `key` identifies the specific failing input/history and is
        what known_findings.json entries are matched against."""
        for e in self._kf:
            if e['key'] == key:
                if key not in [k for k, _ in self.known_hit]:
                    self.known_hit.append((key, e.get('what', what)))
                    print('KNOWN-FINDING: property=%s %s'
                          % (self.prop, e.get('what', what)), flush=True)
                return False
        d = os.path.join(VERIF, 'replays', self.prop)
        os.makedirs(d, exist_ok=True)
        self._nrep += 1
        if self._nrep > 25:       # keep the first 25 replay files only
            self.violations.append((key, what, None))
            return True
        path = os.path.join(d, '%s_%s_%03d.json' % (self.tier, self.seed,
                                                    self._nrep))
        with open(path, 'w') as f:
            json.dump({'property': self.prop, 'key': key, 'what': what,
                       'case': case}, f, indent=1, default=str)
        self.violations.append((key, what, path))
        print('VIOLATION property=%s replay=%s' % (self.prop, path), flush=True)
        print('  what: %s' % what, flush=True)
        return True

    # ---------------- TLC ----------------
    def tlc(self, module, cfg, env=None, workers=None, args=(), timeout=3000,
            simulate=None, coverage=False, expect_violation=False,
            count=True, java_opts=None):
        """Run TLC on spec/<module>.tla with config text or file `cfg`."""
        run = tempfile.mkdtemp(prefix='tlc_', dir=self.scratch)
        if '\n' in cfg or not cfg.endswith('.cfg'):
            cfgp = os.path.join(run, module + '.cfg')
            with open(cfgp, 'w') as f:
                f.write(cfg)
        else:
            cfgp = os.path.join(SPEC, cfg)
        e = dict(os.environ)
        e.update({k: str(v) for k, v in (env or {}).items()})
        cmd = ['java', '-Xss64m', '-Djava.io.tmpdir=' + run]      # TLC leaves a tlc-* directory per run there
        cmd += list(java_opts) if java_opts else ['-XX:+UseParallelGC']
        cmd += ['-cp', TLA_JAR + ':' + CM_JAR, 'tlc2.TLC',
                '-workers', str(workers or 1),
                '-metadir', os.path.join(run, 'meta'), '-noGenerateSpecTE',
                '-config', cfgp]
        if coverage:
            cmd += ['-coverage', '1']
        if simulate:
            cmd += ['-simulate', simulate]
        cmd += list(args)
        cmd += [os.path.join(SPEC, module + '.tla')]
        t = time.time()
        try:
            p = subprocess.run(cmd, cwd=SPEC, env=e, stdout=subprocess.PIPE,
                               stderr=subprocess.STDOUT, timeout=timeout,
                               universal_newlines=True)
        except subprocess.TimeoutExpired:
            raise MachineryError('TLC timeout on %s' % module)
        r = TlcResult(p.returncode, p.stdout, time.time() - t)
        shutil.rmtree(run, ignore_errors=True)
        if r.error or (r.violated and not expect_violation) or \
                (r.rc != 0 and not r.violated):
            tail = '\n'.join(r.out.splitlines()[-60:])
            if r.violated and not expect_violation:
                raise SpecViolation(module, r.violated, tail)
            raise MachineryError('TLC failed on %s (rc=%s):\n%s'
                                 % (module, r.rc, tail))
        if count:
            self.states += r.distinct
            self.transitions += r.generated
        return r

    def tlc_json(self, module, cfg, data, env=None, **kw):
        """Run TLC with `data` available as JsonDeserialize(IOEnv.VIN); the
        spec writes its answer with JsonSerialize(IOEnv.VOUT, ...)."""
        fd, vin = tempfile.mkstemp(suffix='.json', prefix='vin_',
                                   dir=self.scratch)
        with os.fdopen(fd, 'w') as f:
            json.dump(jsonable(data), f)
        vout = vin.replace('vin_', 'vout_')
        ee = dict(env or {})
        ee.update({'VIN': vin, 'VOUT': vout})
        r = self.tlc(module, cfg, env=ee, **kw)
        if not os.path.exists(vout):
            raise MachineryError('TLC wrote no output for %s:\n%s'
                                 % (module, '\n'.join(r.out.splitlines()[-40:])))
        with open(vout) as f:
            out = json.load(f)
        os.unlink(vin)
        os.unlink(vout)
        return out, r

    def tlc_shards(self, module, cfg, nshards=NCPU, env=None, **kw):
        """Run `nshards` TLC processes in parallel (IOEnv.SHARD / IOEnv.NSHARD
        select the slice); each writes JSON to IOEnv.VOUT.  Returns the list
        of decoded outputs."""
        from concurrent.futures import ThreadPoolExecutor

        def one(k):
            vout = os.path.join(self.scratch, 'shard_%s_%d.json' % (module, k))
            ee = dict(env or {})
            ee.update({'SHARD': k, 'NSHARD': nshards, 'VOUT': vout})
            kw.setdefault('java_opts', ['-XX:+UseSerialGC', '-Xmx2g', '-XX:CICompilerCount=2'])
            r = self.tlc(module, cfg, env=ee, workers=1, count=False, **kw)
            if not os.path.exists(vout):
                raise MachineryError('shard %d of %s wrote no output:\n%s'
                                     % (k, module, '\n'.join(r.out.splitlines()[-30:])))
            with open(vout) as f:
                out = json.load(f)
            os.unlink(vout)
            return out, r
        with ThreadPoolExecutor(max_workers=min(nshards, NCPU)) as ex:
            res = list(ex.map(one, range(nshards)))
        for _, r in res:
            self.states += r.distinct
            self.transitions += r.generated
        return [o for o, _ in res]

    # ---------------- finish ----------------
    def finish(self):
        wall = time.time() - self.t0
        cov = {
            'states': self.states,
            'transitions': self.transitions,
            'traces_validated_against_impl': self.traces,
            'samples': self.samples or ['(none)'],
            'evaluations': self.evaluations,
            'distinct_nontrivial': len(self.distinct),
            'exhaustive': bool(self.exhaustive),
            'known_findings_hit': [k for k, _ in self.known_hit],
        }
        cov.update(self.extra)
        ev = {
            'property_id': self.prop,
            'tier': self.tier,
            'seed': self.seed,
            'level': 'model_checking',
            'coverage': cov,
            'assumptions': self.assumptions,
            'wall_s': round(wall, 2),
            'violations': len(self.violations),
        }
        # (self-tests against a patched scratch copy keep their evidence out of the committed directory)
        evdir = os.environ.get('VERIF_EVIDENCE_DIR') or os.path.join(VERIF, 'evidence')
        os.makedirs(evdir, exist_ok=True)
        with open(os.path.join(evdir, self.prop + '.json'), 'w') as f:
            json.dump(ev, f, indent=1, default=str)
        shutil.rmtree(self.scratch, ignore_errors=True)
        self.log('states=%d transitions=%d traces=%d evaluations=%d '
                 'violations=%d known=%d'
                 % (self.states, self.transitions, self.traces,
                    self.evaluations, len(self.violations),
                    len(self.known_hit)))
        return 1 if self.violations else 0


class SpecViolation(Exception):
    """TLC found the property violated on the specification itself."""
    def __init__(self, module, inv, tail):
        Exception.__init__(self, '%s: %s violated' % (module, inv))
        self.module = module
        self.inv = inv
        self.tail = tail
