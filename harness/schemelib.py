"""Shared by C02 / C03 / C04: binding of Scheme.tla to GroupAdditivityScheme."""
import os
from fractions import Fraction

import yaml
from rdkit import Chem

from .common import use_repo, call, codes, uncodes, MachineryError, REPO
from . import molio

use_repo()
from pgradd.GroupAdd.Scheme import GroupAdditivityScheme, sanitize_except_aromatization   # noqa: E402

SCHEMES = ['BensonGA', 'GRWAqueous2018', 'GRWSurface2018', 'GuSolventGA2017Aq', 'GuSolventGA2017Vac',
           'PPY', 'PtSurface2023', 'SalciccioliGA2012', 'XieGA2022']


def scheme_path(name):
    if os.sep in name:
        return name
    return os.path.join(REPO, 'pgradd', 'data', name, 'scheme.yaml')


def scheme_json(name):
    """independent reading of a scheme file -> data for Scheme.tla"""
    with open(scheme_path(name)) as f:
        y = yaml.safe_load(f)
    pats = [{'center': codes(str(p['center_name'])), 'periph': codes(str(p['periph_name'])),
             'text': codes(p['connectivity'])} for p in y['patterns']]
    others = [{'name': codes(str(d['name'])), 'text': codes(d['connectivity'])}
              for d in (y.get('other_descriptors') or [])]
    remaps = []
    for src, rules in (y.get('remaps') or {}).items():
        rs = []
        for coef, target in rules:
            f = Fraction(str(coef))
            rs.append([f.numerator, f.denominator, codes(str(target))])
        remaps.append({'src': codes(str(src)), 'rules': rs})
    return {'patterns': pats, 'others': others, 'remaps': remaps}


_loaded = {}


def load_scheme(name):
    if name not in _loaded:
        kind, s, _ = call(GroupAdditivityScheme.Load, scheme_path(name))
        if kind == 'error':
            raise MachineryError('scheme %s does not load: %r' % (name, s))
        _loaded[name] = s
    return _loaded[name]


def kekule_graph(smiles):
    """the graph GetDescriptors works on, before its own aromatisation step:
    sanitised except aromaticity, explicit hydrogens, Kekule form, unspecified bonds -> zero-order;
    ring list in the order of the symmetrised SSSR.  None for an unreadable SMILES."""
    mol = Chem.MolFromSmiles(smiles)
    if mol is None:
        return None, None
    sanitize_except_aromatization(mol)
    mol = Chem.AddHs(mol)
    Chem.Kekulize(mol)
    for b in mol.GetBonds():
        if str(b.GetBondType()) == 'UNSPECIFIED':
            b.SetBondType(Chem.BondType.ZERO)
    rings = [[i + 1 for i in r] for r in Chem.GetSymmSSSR(mol)]
    g = molio.export(mol)
    g['rings'] = rings
    return g, mol


def decompose(scheme_name, smiles_or_mol):
    """implementation: (outcome, bag or exception class, annotated molecule or None)"""
    s = load_scheme(scheme_name)
    if hasattr(s, '_verif_last_mol'):
        del s._verif_last_mol
    kind, d, _ = call(s.GetDescriptors, smiles_or_mol)
    hm = getattr(s, '_verif_last_mol', None)
    if kind == 'error':
        return 'error', type(d).__name__, hm
    return 'value', dict((str(k), v) for k, v in d.items()), hm


def bag_of(spec_bag):
    return {uncodes(name): Fraction(q[0], q[1]) for name, q in spec_bag}


def same_bag(impl, spec):
    keys = set(impl) | set(spec)
    for k in keys:
        a = Fraction(impl.get(k, 0)).limit_denominator(10**6) if k in impl else None
        b = spec.get(k)
        if a is None or b is None:
            # a zero count is the same as an absent descriptor
            if (a or 0) != (b or 0):
                return False
        elif abs(float(a) - float(b)) > 1e-9:
            return False
    return True


def show_bag(b):
    return '{' + ', '.join('%s: %s' % (k, b[k]) for k in sorted(b)) + '}'


def run_pairs(ctx, schemes, graphs, pairs):
    """TLC: decomposition of every (scheme index, graph index) pair (1-based)"""
    from .drivers.c09 import _vin
    data = {'schemes': schemes, 'mols': graphs, 'pairs': pairs}
    outs = ctx.tlc_shards('MC_Scheme', 'MC_Scheme.cfg', nshards=16, env={'VIN': _vin(ctx, data)}, timeout=12000)
    res = {}
    for o in outs:
        for j, r in o['res'].items():
            res[int(j)] = r
    if len(res) != len(pairs):
        raise MachineryError('shards returned %d of %d pairs' % (len(res), len(pairs)))
    return [res[j] for j in range(1, len(pairs) + 1)]
