"""Entry point: python -m harness.main <Cxx> quick|thorough  |  <Cxx> --replay <file>"""
import importlib
import json
import os
import sys
import traceback

from . import common


def main(argv):
    if len(argv) < 2:
        print('usage: check <Cxx> quick|thorough | <Cxx> --replay <file>')
        return 2
    prop = argv[0]
    seed = int(os.environ.get('VERIF_SEED', '20260928'))
    try:
        drv = importlib.import_module('harness.drivers.' + prop.lower())
    except ImportError:
        traceback.print_exc()
        return 2
    if argv[1] == '--replay':
        ctx = common.Ctx(prop, 'quick', seed)
        with open(argv[2]) as f:
            rep = json.load(f)
        try:
            drv.replay(ctx, rep)
        except Exception:
            traceback.print_exc()
            return 2
        import shutil
        shutil.rmtree(ctx.scratch, ignore_errors=True)
        return 1 if ctx.violations else 0
    tier = os.environ.get('VERIF_TIER') if argv[1] == 'auto' else argv[1]
    if tier not in ('quick', 'thorough'):
        print('bad tier %r' % tier)
        return 2
    ctx = common.Ctx(prop, tier, seed)
    try:
        drv.run(ctx)
    except common.SpecViolation as e:
        # The property fails on the specification itself: machinery/spec
        # problem, not a verdict about the implementation.
        print('SPEC-VIOLATION (machinery): %s\n%s' % (e, e.tail))
        import shutil
        shutil.rmtree(ctx.scratch, ignore_errors=True)
        return 2
    except Exception:
        traceback.print_exc()
        import shutil
        shutil.rmtree(ctx.scratch, ignore_errors=True)
        return 2
    return ctx.finish()


if __name__ == '__main__':
    sys.exit(main(sys.argv[1:]))
