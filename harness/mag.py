"""Numeric value of a symbolic magnitude (spec/Mag.tla) - the only place where
a float is computed from the specification's exact results."""
from fractions import Fraction

GENERATORS = {-5: Fraction(105435026444, 10**11)}   # GenBTU


def mag_value(m):
    """m = {'s': sign, 'f': [[base, [n, d]], ...]} -> float"""
    if m['s'] == 0:
        return 0.0
    exact = Fraction(1)
    inexact = 1.0
    for b, (n, d) in m['f']:
        base = GENERATORS[b] if b < 0 else Fraction(b)
        if d == 1:
            exact *= base ** n
        else:
            inexact *= float(base) ** (n / d)
    num, den = exact.numerator, exact.denominator
    # exact ratio -> correctly rounded float even for huge/small values
    return m['s'] * (num / den if True else 0.0) * inexact


def close(a, b, rel=1e-12, abs_=0.0):
    return abs(a - b) <= max(rel * max(abs(a), abs(b)), abs_)
